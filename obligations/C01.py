"""C01 — every commitment conserves the channel's funds; prediction == construction.

Kernel level: the fee / dust / anchor / reserve arithmetic of sign/tx_builder.rs and
ln/chan_utils.rs, decided from the MIR for all values inside the stated bounds."""
import z3
from engine_m import exec as X
from engine_m.session import Binding, Inconclusive
from .common import *

SUPPLY_SAT = 21_000_000 * 100_000_000

EVIDENCE = dict(assumptions=[
    'channel value <= 21e14 sat; value_to_self <= value*1000; every HTLC amount <= value*1000 (enforced per add by the channel); 354 <= dust limit <= channel value (MIN_CHAN_DUST_LIMIT_SATOSHIS is enforced at channel open)',
    'channel type in {static_remote_key, anchors_zero_fee_htlc_tx, zero-fee-commitments}; zero-fee-commitment channels have feerate 0 (debug_asserted by the code)',
    'HTLC list length <= N (quick N=2, thorough N=4); HTLCs are interchangeable so small N exercises every dust/non-dust x direction combination; larger multisets are outside the bound',
    'ChannelTypeFeatures::supports_* are modelled by the three-row truth table, which is read back from the native build at run time',
    'interleavings / reconnects / signatures / output ordering and scripts (CommitmentTransaction::new internals) are outside the claim'])


def chan_type(E, mem, name='ct'):
    tag = z3.Int(name + '.tag')
    E.assume(z3.And(tag >= 0, tag <= 2), ('rng', name + '.tag'))
    E.feature_model[name] = {'supports_anchors_zero_fee_htlc_tx': tag == 1,
                             'supports_anchor_zero_fee_commitments': tag == 2}
    c = E.new_cell()
    mem[c] = X.Adt('Features', {}, base=name)
    return X.Ref(c), tag


def check_truth_table(S):
    outs = S.oracle().call(['channel_type_supports 0', 'channel_type_supports 1', 'channel_type_supports 2'])
    if [o.strip() for o in outs] != ['ok 0 0', 'ok 1 0', 'ok 0 1']:
        raise Inconclusive('ChannelTypeFeatures truth table differs from the model: %s' % outs)


# ---- specification side (BOLT-3), mathematical integers -----------------------------------
def base_weight(tag):
    return z3.If(tag == 1, 1124, 724)


def spec_commit_fee(f, n, tag):
    return (f * (base_weight(tag) + 172 * n)) / 1000


def spec_commit_fee_small(f, count, tag, N):
    """same formula with the (small) HTLC count case-split so the product stays linear"""
    r = None
    for k in range(N, -1, -1):
        v = z3.If(tag == 1, (f * (1124 + 172 * k)) / 1000, (f * (724 + 172 * k)) / 1000)
        r = v if r is None else z3.If(count == k, v, r)
    return r


def spec_second_stage(f, tag):
    return (z3.If(tag == 0, (f * 703) / 1000, 0), z3.If(tag == 0, (f * 663) / 1000, 0))


def spec_is_dust(offered_by_broadcaster, amount_msat, f, dust, tag):
    succ, tout = spec_second_stage(f, tag)
    return amount_msat / 1000 < dust + z3.If(offered_by_broadcaster, tout, succ)


def panic_of(E):
    return z3.Or(*[X.zbool(p[0]) for p in E.panics]) if E.panics else False


def htlc_line(prefix_n, n_idx, cap, suffix_from):
    """oracle line formatter: vals = prefix + [n] + cap*(flag, amount) + suffix"""
    def fmt(vals):
        pre = vals[:n_idx]
        n = vals[n_idx]
        pairs = vals[n_idx + 1:n_idx + 1 + 2 * cap]
        suf = vals[n_idx + 1 + 2 * cap:]
        return ' '.join(str(v) for v in pre + [n] + pairs[:2 * n] + suf)
    return fmt


def run(S):
    D = S.decls()
    check_truth_table(S)
    N = 2 if S.tier == 'quick' else 4
    leafs(S, D)
    inclusion_tables(S, D)
    stats_and_build(S, D, N)
    send_limits(S, D, 1 if S.tier == 'quick' else 2)
    closing(S, D)
    closing_fee_range(S, D)


def leafs(S, D):
    # ---- C01.a leaf formulas ---------------------------------------------------------------
    E = S.engine()
    mem = {}
    f = S.fn('commit_tx_fee_sat', nargs=3)
    fr, n = E.sym('f', 'u32'), E.sym('n', 'usize')
    ct, tag = chan_type(E, mem)
    rv = S.call(E, f, [fr, n, ct], mem)
    b = Binding('commit_tx_fee_sat', [fr.t, n.t, tag], [rv.t], panic=panic_of(E),
                domain=[(0, U32), (0, 2000), (0, 2)], interesting=[253, 1000, 483, 966])
    S.validate('C01.a.commit_fee.validate', E, b)
    pre = [n.t <= 1000]
    S.prove('C01.a.commit_fee', E, pre, rv.t == spec_commit_fee(fr.t, n.t, tag),
            'commit_tx_fee_sat(f,n,type) = floor(f*(W_type + 172 n)/1000), W = 724 / 1124 (anchors)', [b],
            bounds='all u32 feerates, n <= 1000 non-dust HTLCs, 3 channel types',
            split=[tag == k for k in range(3)])
    S.no_panic('C01.a.commit_fee.nopanic', E, pre, 'no overflow for n <= 1000', [b])

    E = S.engine()
    mem = {}
    f = S.fn('second_stage_tx_fees_sat', nargs=2)
    fr = E.sym('f', 'u32')
    ct, tag = chan_type(E, mem)
    rv = S.call(E, f, [ct, fr], mem)
    b = Binding('second_stage_tx_fees_sat', [tag, fr.t], [rv.fs[0].t, rv.fs[1].t], panic=panic_of(E),
                domain=[(0, 2), (0, U32)], interesting=[253, 1000])
    S.validate('C01.a.second_stage.validate', E, b)
    ss, st = spec_second_stage(fr.t, tag)
    S.prove('C01.a.second_stage', E, [], z3.And(rv.fs[0].t == ss, rv.fs[1].t == st),
            'second-stage fees: floor(f*703/1000), floor(f*663/1000) for legacy channels, (0,0) for both anchor types', [b])
    S.no_panic('C01.a.second_stage.nopanic', E, [], 'total', [b])

    E = S.engine()
    mem = {}
    f = S.fn('is_dust', first_param='HTLCAmountDirection')
    h = E.sym('htlc', f.params[0][1], mem)
    local, fr, dust = E.sym('local', 'bool'), E.sym('f', 'u32'), E.sym('dust', 'u64')
    ct, tag = chan_type(E, mem)
    rv = S.call(E, f, [h, local, fr, dust, ct], mem)
    hv = mem[h.cell]
    outb = field(E, D, 'HTLCAmountDirection', 'outbound', hv, 'bool')
    amt = field(E, D, 'HTLCAmountDirection', 'amount_msat', hv, 'u64')
    b = Binding('is_dust', [outb.t, amt.t, local.t, fr.t, dust.t, tag], [rv.t], panic=panic_of(E),
                domain=[(0, 1), (0, U64), (0, 1), (0, U32), (0, SUPPLY_SAT), (0, 2)], interesting=[354, 546, 330, 253])
    S.validate('C01.a.is_dust.validate', E, b)
    pre = [dust.t <= SUPPLY_SAT]
    S.prove('C01.a.is_dust', E, pre, X.zbool(rv.t) == spec_is_dust(X.zbool(outb.t) == X.zbool(local.t), amt.t, fr.t, dust.t, tag),
            'HTLC is dust on a commitment iff floor(amount/1000) < dust_limit + second-stage fee (timeout fee when offered by the broadcaster, success fee otherwise)',
            [b], bounds='all u64 amounts, u32 feerates, dust <= 21e14')
    S.no_panic('C01.a.is_dust.nopanic', E, pre, 'total for dust <= 21e14', [b])


def stats_and_build(S, D, N):
    # ---- C01.b / C01.c: prediction (get_next_commitment_stats) and construction ------------
    E = S.engine()
    mem = {}
    E.slice_cap = N
    fs = S.fn('get_next_commitment_stats', nargs=11)
    fb = S.fn('build_commitment_transaction', first_param='SpecTxBuilder')
    local, funder = E.sym('local', 'bool'), E.sym('funder', 'bool')
    V, Sv = E.sym('V', 'u64'), E.sym('S', 'u64')
    fr, dust = E.sym('f', 'u32'), E.sym('dust', 'u64')
    ct, tag = chan_type(E, mem)
    n = z3.Int('n')
    E.assume(z3.And(n >= 0, n <= N))
    offered = [z3.Bool('h%d.offered' % i) for i in range(N)]
    amount = [E.int_sym('h%d.amount' % i, 'u64').t for i in range(N)]
    outbound = [offered[i] == X.zbool(local.t) for i in range(N)]
    pres = [n > i for i in range(N)]
    pre = [V.t <= SUPPLY_SAT, Sv.t <= V.t * 1000, dust.t <= SUPPLY_SAT, dust.t >= 354,
           z3.Implies(tag == 2, fr.t == 0)] + [a <= V.t * 1000 for a in amount]

    # -- prediction
    HD = D.struct_fields('HTLCAmountDirection')
    dirs = X.Seq([X.Adt('HTLCAmountDirection', {HD.index('outbound'): X.B(outbound[i]), HD.index('amount_msat'): X.I(amount[i], 'u64')}) for i in range(N)], n)
    cd = E.new_cell()
    mem[cd] = dirs
    none_u32 = X.En('Option', 0, {})
    stats = S.call(E, fs, [local, funder, V, Sv, X.Ref(cd), X.I(0, 'usize'), fr, X.B(False), none_u32, dust, ct], mem)
    NS = D.struct_fields('NextCommitmentStats')
    st_ok = X.zint(stats.d) == 0
    st = stats.vs[0][0]
    s_holder = st.fs[NS.index('holder_balance_msat')].t
    s_cp = st.fs[NS.index('counterparty_balance_msat')].t
    s_dustexp = st.fs[NS.index('dust_exposure_msat')].t
    stats_panics = list(E.panics)
    stats_panic = panic_of(E)

    # -- construction: observe the arguments handed to CommitmentTransaction::new
    HO = D.struct_fields('HTLCOutputInCommitment')
    outs = X.Seq([X.Adt('HTLCOutputInCommitment', {HO.index('offered'): X.B(offered[i]), HO.index('amount_msat'): X.I(amount[i], 'u64')}, base='ho%d' % i) for i in range(N)], n)
    obs = {}

    def h_new(E_, m, func, argv, guard, mem_, dty, caller):
        obs['guard'] = guard
        obs['to_b'], obs['to_c'], obs['feerate'], obs['htlcs'] = argv[2], argv[3], argv[4], argv[5]
        return X.Opaque('CommitmentTransaction')
    import re
    E.models.insert(0, (re.compile(r'CommitmentTransaction::new$'), h_new))
    E.models.insert(0, (re.compile(r'as_(holder|counterparty)_broadcastable$'), lambda *a: X.Opaque('directed params')))
    CP = D.struct_fields('ChannelTransactionParameters')
    params = X.Adt('ChannelTransactionParameters', {CP.index('is_outbound_from_holder'): funder,
                                                    CP.index('channel_value_satoshis'): V,
                                                    CP.index('channel_type_features'): mem[ct.cell]}, base='params')
    cp_cell = E.new_cell()
    mem[cp_cell] = params
    builder = E.sym('builder', fb.params[0][1], mem)
    npan = len(E.panics)
    res = S.call(E, fb, [builder, local, X.I(42, 'u64'), X.Opaque('point'), X.Ref(cp_cell), X.Opaque('secp'), Sv,
                         outs, fr, dust, X.Opaque('logger')], mem)
    if 'to_b' not in obs:
        raise Inconclusive('CommitmentTransaction::new not reached in build_commitment_transaction')
    build_panics = E.panics[npan:]
    build_panic = z3.Or(*[X.zbool(p[0]) for p in build_panics]) if build_panics else False
    to_b, to_c = obs['to_b'].t, obs['to_c'].t
    kept = obs['htlcs']
    nd = [X.zbool(p) for p in kept.pres]            # non-dust flags as decided by the builder
    nd_count = sum([z3.If(p, 1, 0) for p in nd])
    nd_total_msat = sum([z3.If(p, a, 0) for p, a in zip(nd, amount)])
    nd_total_sat = sum([z3.If(p, a / 1000, 0) for p, a in zip(nd, amount)])
    cstats = res.fs[1]
    CS = D.struct_fields('CommitmentStats')
    c_fee = cstats.fs[CS.index('commit_tx_fee_sat')].t
    c_local = cstats.fs[CS.index('local_balance_before_fee_msat')].t
    c_remote = cstats.fs[CS.index('remote_balance_before_fee_msat')].t

    # oracle bindings
    flat = []
    for i in range(N):
        flat += [offered[i], amount[i]]
    b_build = Binding('build_commitment', [local.t, funder.t, V.t, Sv.t, n] + flat + [fr.t, dust.t, tag],
                      [to_b, to_c, nd_count, nd_total_msat, c_fee, c_local, c_remote], panic=build_panic,
                      line_fn=htlc_line(4, 4, N, None),
                      domain=[(0, 1), (0, 1), (0, SUPPLY_SAT), (0, SUPPLY_SAT * 1000), (0, N)] + [(0, 1), (0, U64)] * N + [(0, U32), (0, SUPPLY_SAT), (0, 2)])
    flat2 = []
    for i in range(N):
        flat2 += [outbound[i], amount[i]]
    ob_syms = [z3.Bool('h%d.outbound' % i) for i in range(N)]
    for i in range(N):
        E.assume(ob_syms[i] == outbound[i])
    flat2 = []
    for i in range(N):
        flat2 += [ob_syms[i], amount[i]]
    b_stats = Binding('get_next_commitment_stats', [local.t, funder.t, V.t, Sv.t, n] + flat2 + [z3.IntVal(0), fr.t, z3.BoolVal(False), z3.IntVal(0), z3.IntVal(0), dust.t, tag],
                      [stats.d, z3.If(st_ok, s_holder, 0), z3.If(st_ok, s_cp, 0), z3.If(st_ok, s_dustexp, 0)], panic=stats_panic,
                      line_fn=htlc_line(4, 4, N, None))
    binds = [b_build, b_stats]

    # independent reference model (BOLT-3)
    offered_by_broadcaster = offered                       # HTLCOutputInCommitment.offered is relative to the broadcaster
    sp_nd = [z3.And(pres[i], z3.Not(spec_is_dust(offered[i], amount[i], fr.t, dust.t, tag))) for i in range(N)]
    sp_count = sum([z3.If(p, 1, 0) for p in sp_nd])
    out_total = sum([z3.If(z3.And(pres[i], outbound[i]), amount[i], 0) for i in range(N)])
    in_total = sum([z3.If(z3.And(pres[i], z3.Not(outbound[i])), amount[i], 0) for i in range(N)])
    holder_msat = Sv.t - out_total
    cp_msat = V.t * 1000 - Sv.t - in_total
    anchors = z3.If(tag == 1, 660, 0)
    fee = spec_commit_fee_small(fr.t, sp_count, tag, N)
    sane = z3.And(holder_msat >= 0, cp_msat >= 0)
    pre_b = pre + [sane]
    mx = lambda a: z3.If(a >= 0, a, 0)
    h_before = z3.If(X.zbool(funder.t), mx(holder_msat - anchors * 1000), holder_msat)
    c_before = z3.If(X.zbool(funder.t), cp_msat, mx(cp_msat - anchors * 1000))
    h_sat = z3.If(X.zbool(funder.t), mx(h_before / 1000 - fee), h_before / 1000)
    c_sat = z3.If(X.zbool(funder.t), c_before / 1000, mx(c_before / 1000 - fee))
    trim = lambda v: z3.If(v >= dust.t, v, 0)
    sp_to_b = trim(z3.If(X.zbool(local.t), h_sat, c_sat))
    sp_to_c = trim(z3.If(X.zbool(local.t), c_sat, h_sat))
    case = [z3.And(tag == k, X.zbool(funder.t) == fb_) for k in range(3) for fb_ in (True, False)]

    S.witness('C01.c.witness', E, pre_b + [n == N, nd_count >= 1, nd_count < N if N > 1 else True, to_b > 0, to_c > 0, tag == 0, fr.t >= 253])
    S.prove('C01.c.nondust_set', E, pre_b, z3.And(*[nd[i] == sp_nd[i] for i in range(N)]),
            'the builder keeps exactly the HTLCs that are non-dust under BOLT-3 (its own dust closure agrees with the specification)',
            binds, bounds='N=%d HTLCs, all amounts/feerates within Pre' % N, split=case)
    S.prove('C01.c.outputs', E, pre_b, z3.And(to_b == sp_to_b, to_c == sp_to_c, c_fee == fee),
            'to_broadcaster / to_countersignatory / fee equal the BOLT-3 reference: HTLCs deducted from their offerer, anchors and fee from the funder (saturating), sat rounding down, outputs below dust trimmed',
            binds, bounds='N=%d' % N, split=case)
    S.prove('C01.c.no_overspend', E, pre_b, to_b + to_c + nd_total_sat <= V.t,
            'balance outputs + non-dust HTLC outputs never exceed the channel value', binds, split=case)
    afford = z3.If(X.zbool(funder.t), holder_msat >= (anchors + fee) * 1000, cp_msat >= (anchors + fee) * 1000)
    S.prove('C01.c.conservation', E, pre_b + [afford],
            to_b + to_c + nd_total_sat + anchors + c_fee <= V.t,
            'when the funder can afford anchors+fee: outputs + non-dust HTLCs + anchors + fee never exceed the channel value',
            binds, split=case)
    # exact accounting; uses the equalities established by C01.c.outputs / C01.c.nondust_set as hypotheses
    given = [to_b == sp_to_b, to_c == sp_to_c, c_fee == fee] + [nd[i] == sp_nd[i] for i in range(N)]
    S.prove('C01.c.conservation_exact', E, pre_b + [afford] + given,
            (V.t - (to_b + to_c + nd_total_sat + anchors + fee)) * 1000 ==
            sum([z3.If(z3.And(pres[i], z3.Not(nd[i])), amount[i], 0) for i in range(N)]) +
            sum([z3.If(nd[i], amount[i] % 1000, 0) for i in range(N)]) +
            (h_before % 1000) + (c_before % 1000) +
            1000 * (z3.If(X.zbool(local.t), h_sat, c_sat) - to_b) + 1000 * (z3.If(X.zbool(local.t), c_sat, h_sat) - to_c),
            'given C01.c.outputs and C01.c.nondust_set: what the outputs, anchors and nominal fee leave over is exactly the dust HTLCs, the trimmed balances and the sub-satoshi remainders - every pending HTLC is counted exactly once',
            binds, split=case)
    S.no_panic('C01.c.build.nopanic', E, pre_b, 'construction does not panic when both balances cover their own HTLCs', binds,
               only=lambda p: p in build_panics)

    # prediction <-> construction
    S.no_panic('C01.b.stats.nopanic', E, pre, 'get_next_commitment_stats reaches no overflow/unwrap panic under Pre', binds,
               only=lambda p: p in stats_panics)
    has_out = z3.Or(z3.If(X.zbool(funder.t), h_before / 1000 - fee, h_before / 1000) >= dust.t,
                    z3.If(X.zbool(funder.t), c_before / 1000, c_before / 1000 - fee) >= dust.t, sp_count > 0, tag == 2)
    has_out_sat = z3.Or(z3.If(X.zbool(funder.t), mx(h_before - fee * 1000), h_before) >= dust.t * 1000,
                        z3.If(X.zbool(funder.t), c_before, mx(c_before - fee * 1000)) >= dust.t * 1000, sp_count > 0, tag == 2)
    S.prove('C01.b.stats_ok_sound', E, pre, z3.Implies(st_ok, z3.And(sane, afford, has_out_sat)),
            'get_next_commitment_stats = Ok only if neither party overdraws on its HTLCs, the funder covers anchors + fee, and the commitment has at least one output',
            binds, split=case, given_no_panic=True)
    S.prove('C01.b.stats_ok_complete', E, pre, z3.Implies(z3.And(sane, afford, has_out_sat), st_ok),
            'get_next_commitment_stats does not refuse a state that satisfies all three conditions',
            binds, split=case, given_no_panic=True)
    S.prove('C01.c.prediction_matches_construction', E, pre + [st_ok],
            z3.And(s_holder == z3.If(X.zbool(funder.t), c_local - c_fee * 1000, c_local),
                   s_cp == z3.If(X.zbool(funder.t), c_remote, c_remote - c_fee * 1000),
                   s_holder / 1000 == h_sat, s_cp / 1000 == c_sat,
                   z3.Or(to_b > 0, to_c > 0, nd_count > 0, tag == 2),
                   z3.Not(build_panic)),
            'whenever the prediction is Ok, building the transaction on the same state does not panic, charges the same fee to the same party, yields floor(predicted balance/1000) for each side before dust trimming and has >= 1 output',
            binds, split=case, given_no_panic=True)
    S.prove('C01.c.balances_sum', E, pre + [st_ok],
            s_holder + s_cp + out_total + in_total + 1000 * (anchors + fee) == 1000 * V.t,
            'predicted balances + all pending HTLCs + anchors + fee = channel value (msat): nothing is created or lost', binds, split=case, given_no_panic=True)
    S.validate('C01.c.build.validate', E, b_build, n=120 if S.tier == 'quick' else 600)
    S.validate('C01.b.stats.validate', E, b_stats, n=120 if S.tier == 'quick' else 600)



# ---- C01.d: per-state HTLC inclusion tables (channel.rs) ------------------------------------
def _closure_result(S, E, fname, which_param, local_b, mem, name):
    """run the filter closure of `fname` whose 2nd parameter type contains which_param on a
    symbolic HTLC (lazy struct `name`) and a symbolic `local`"""
    ix = S.mir()
    cands = []
    for i in ix.find(fname.split('::')[-1]) if False else range(len(ix.offsets)):
        h = ix.offsets[i][0]
        if ('::%s::{closure#' % fname) in h and __import__('re').search(r'_2: &&(?:\w+::)*' + which_param + r'\b', h) and h.rstrip(' {').endswith('-> bool'):
            cands.append(i)
    if len(cands) != 1:
        raise Inconclusive('%s: expected exactly one bool filter closure over %s, found %d' % (fname, which_param, len(cands)))
    fn = ix.get(cands[0])
    import re as _re
    caps = {}
    for dn, dv in fn.debug.items():
        mm = _re.search(r'\(\*?_1\)?\.(\d+): (&?)bool', dv)
        if mm:
            caps[int(mm.group(1))] = (dn, mm.group(2) == '&')
    vals = []
    extra = {}
    for k in range(max(caps) + 1 if caps else 0):
        dn, byref = caps[k]
        v = local_b if dn == 'local' else E.sym('%s.cap.%s' % (name, dn), 'bool')
        if dn != 'local':
            extra[dn] = v
        if byref:
            c0 = E.new_cell()
            mem[c0] = v
            vals.append(X.Ref(c0))
        else:
            vals.append(v)
    if not any(d == 'local' for d, _ in caps.values()):
        raise Inconclusive('closure of %s does not capture `local`' % fname)
    m = _re.search(r'\{closure@[^}]*\}', fn.params[0][1])
    clo = X.Clo(m.group(0), vals)
    fn.extra_caps = extra
    cc = E.new_cell()
    mem[cc] = clo
    self_arg = X.Ref(cc) if fn.params[0][1].startswith('&') else clo
    htlc = E.sym(name, fn.params[1][1], mem)
    r = E.call_fn(fn, [self_arg, htlc], True, mem)
    if r is X.DIVERGE:
        raise Inconclusive('closure of %s did not return' % fname)
    return r[0], fn


def inclusion_tables(S, D):
    E = S.engine()
    mem = {}
    local = E.sym('local', 'bool')
    L = X.zbool(local.t)
    IV = lambda n: D.variant_index('InboundHTLCState', n)
    OV = lambda n: D.variant_index('OutboundHTLCState', n)

    # the real methods on a symbolic state
    f_in = S.fn('included_in_commitment', first_param='InboundHTLCState')
    f_out = S.fn('included_in_commitment', first_param='OutboundHTLCState')
    p_in = S.fn('preimage', first_param='InboundHTLCState')
    p_out = S.fn('preimage', first_param='OutboundHTLCState')
    gbl = E.sym('generated_by_local', 'bool')
    G = X.zbool(gbl.t)
    ist = E.sym('ist', f_in.params[0][1], mem)
    ost = E.sym('ost', f_out.params[0][1], mem)
    inc_in = X.zbool(S.call(E, f_in, [ist, gbl], mem).t)
    inc_out = X.zbool(S.call(E, f_out, [ost, gbl], mem).t)
    E.models.insert(0, (__import__('re').compile(r'^<.*PaymentPreimage as Clone>::clone$|^<.* as Copy>'), lambda *a: X.Opaque('preimage')))
    pre_in = X.zint(S.call(E, p_in, [ist], mem).d) == 1
    pre_out = X.zint(S.call(E, p_out, [ost], mem).d) == 1
    iv = mem[ist.cell]
    ov = mem[ost.cell]
    i_d, o_d = X.zint(iv.d), X.zint(ov.d)

    def in_reason_fulfill(v, base):
        r = E.read_path(v, (('v', 'LocalRemoved'), ('f', 0, 'ln::channel::InboundHTLCRemovalReason')), mem, True, 'spec')
        return X.zint(r.d) == D.variant_index('InboundHTLCRemovalReason', 'Fulfill')

    def out_success(v, variant):
        r = E.read_path(v, (('v', variant), ('f', 0, 'ln::channel::OutboundHTLCOutcome')), mem, True, 'spec')
        return X.zint(r.d) == D.variant_index('OutboundHTLCOutcome', 'Success')
    in_ful = in_reason_fulfill(iv, 'ist')
    o_succ = z3.Or(z3.And(o_d == OV('RemoteRemoved'), out_success(ov, 'RemoteRemoved')),
                   z3.And(o_d == OV('AwaitingRemoteRevokeToRemove'), out_success(ov, 'AwaitingRemoteRevokeToRemove')),
                   z3.And(o_d == OV('AwaitingRemovedRemoteRevoke'), out_success(ov, 'AwaitingRemovedRemoteRevoke')))

    # BOLT-2 two-phase commit table (written out from the protocol, not from the code):
    # inbound HTLC: in OUR commitment (signed by them: generated_by_local = false) from their
    # announcement until our removal is irrevocably acked; in THEIR commitment (generated by us)
    # only once we have acked the add and until we remove it.
    spec_in = z3.If(z3.Or(i_d == IV('RemoteAnnounced'), i_d == IV('AwaitingRemoteRevokeToAnnounce'), i_d == IV('LocalRemoved')), z3.Not(G), True)
    # outbound HTLC: in THEIR commitment (generated by us) from our announcement until we have
    # signed its removal; in OUR commitment only while irrevocably committed.
    spec_out = z3.If(o_d == OV('Committed'), True, z3.If(o_d == OV('AwaitingRemovedRemoteRevoke'), False, G))
    reason_d = X.zint(E.read_path(iv, (('v', 'LocalRemoved'), ('f', 0, 'ln::channel::InboundHTLCRemovalReason')), mem, True, 'spec').d)
    succ_arg = z3.Bool('oracle.succ')
    E.assume(succ_arg == o_succ)
    b_in = Binding('inbound_state_table', [i_d, reason_d, gbl.t], [inc_in, pre_in])
    b_out = Binding('outbound_state_table', [o_d, succ_arg, gbl.t], [inc_out, pre_out])
    tb = [b_in, b_out]
    S.prove('C01.d.inbound_table', E, [], inc_in == spec_in, 'InboundHTLCState::included_in_commitment equals the BOLT-2 two-phase-commit table for all 5 states x generated_by_local', tb, bounds='5 states x 2')
    S.prove('C01.d.outbound_table', E, [], inc_out == spec_out, 'OutboundHTLCState::included_in_commitment equals the BOLT-2 table for all 5 states x generated_by_local', tb, bounds='5 states x 2')
    S.prove('C01.d.preimage_known', E, [], z3.And(pre_in == z3.And(i_d == IV('LocalRemoved'), in_ful), pre_out == o_succ),
            'a preimage is reported exactly for inbound LocalRemoved(Fulfill) and for outbound *Removed*(Success)', tb)
    S.no_panic('C01.d.methods.nopanic', E, [], 'inclusion methods are total')

    # prediction closures of get_next_commitment_htlcs / get_next_commitment_value_to_self_msat, on the SAME
    # symbolic states (the closures read the state through the HTLC struct: tie the symbols together)
    def tie(htlc_ref, which, st_val):
        hv = E.read_path(mem[htlc_ref.cell], htlc_ref.path, mem, True, 'spec')
        while isinstance(hv, X.Ref):
            hv = E.read_path(mem[hv.cell], hv.path, mem, True, 'spec')
        idx = D.field_index(which, 'state')
        return E.read_path(hv, (('f', idx, 'ln::channel::' + ('InboundHTLCState' if which.startswith('In') else 'OutboundHTLCState')),), mem, True, 'spec')

    E2 = S.engine()
    mem2 = {}
    local2 = E2.sym('local', 'bool')
    L = X.zbool(local2.t)
    nin, fn1 = _closure_result(S, E2, 'get_next_commitment_htlcs', 'InboundHTLCOutput', local2, mem2, 'hin')
    nout, fn2 = _closure_result(S, E2, 'get_next_commitment_htlcs', 'OutboundHTLCOutput', local2, mem2, 'hout')
    cin, fn3 = _closure_result(S, E2, 'get_next_commitment_value_to_self_msat', 'InboundHTLCOutput', local2, mem2, 'hin')
    cout, fn4 = _closure_result(S, E2, 'get_next_commitment_value_to_self_msat', 'OutboundHTLCOutput', local2, mem2, 'hout')
    nin, nout, cin, cout = [X.zbool(v.t) for v in (nin, nout, cin, cout)]
    # states as seen by the closures
    def st_of(name, which):
        idx = D.field_index(which, 'state')
        ty = 'ln::channel::' + ('InboundHTLCState' if which.startswith('In') else 'OutboundHTLCState')
        return E2.sym('%s.*.*.%d' % (name, idx), ty, mem2)
    iv2, ov2 = st_of('hin', 'InboundHTLCOutput'), st_of('hout', 'OutboundHTLCOutput')
    i2, o2 = X.zint(iv2.d), X.zint(ov2.d)
    r = E2.read_path(iv2, (('v', 'LocalRemoved'), ('f', 0, 'ln::channel::InboundHTLCRemovalReason')), mem2, True, 'spec')
    in_ful2 = X.zint(r.d) == D.variant_index('InboundHTLCRemovalReason', 'Fulfill')

    def osucc2(variant):
        rr = E2.read_path(ov2, (('v', variant), ('f', 0, 'ln::channel::OutboundHTLCOutcome')), mem2, True, 'spec')
        return X.zint(rr.d) == D.variant_index('OutboundHTLCOutcome', 'Success')
    o_succ2 = z3.Or(z3.And(o2 == OV('RemoteRemoved'), osucc2('RemoteRemoved')),
                    z3.And(o2 == OV('AwaitingRemoteRevokeToRemove'), osucc2('AwaitingRemoteRevokeToRemove')),
                    z3.And(o2 == OV('AwaitingRemovedRemoteRevoke'), osucc2('AwaitingRemovedRemoteRevoke')))
    in_succ2 = z3.And(i2 == IV('LocalRemoved'), in_ful2)
    # outbound LocalAnnounced is in the set iff include_counterparty_unknown_htlcs (a captured flag)
    unk = None
    m = __import__('re').search(r'\(\*_1\)\.(\d): &bool', fn2.text)
    succ2 = z3.Bool('oracle.succ2')
    E2.assume(succ2 == o_succ2)
    unk_sym = fn2.extra_caps['include_counterparty_unknown_htlcs'].t if 'include_counterparty_unknown_htlcs' in getattr(fn2, 'extra_caps', {}) else z3.BoolVal(True)
    BASE = 9900000000
    pb_in = Binding('next_commitment_probe', [z3.BoolVal(True), i2, X.zint(r.d), local2.t, z3.BoolVal(True)], [z3.If(nin, 1, 0), BASE + z3.If(cin, 1000, 0), BASE])
    pb_out = Binding('next_commitment_probe', [z3.BoolVal(False), o2, z3.If(succ2, 1, 0), local2.t, unk_sym], [z3.If(nout, 1, 0), BASE - z3.If(cout, 1000, 0), BASE])
    pb = [pb_in, pb_out]
    # (i) prediction is a superset of what a commitment built now for side X contains
    #     X = local  <-> built with generated_by_local = false ; X = remote <-> generated_by_local = true
    built_in = z3.If(z3.Or(i2 == IV('RemoteAnnounced'), i2 == IV('AwaitingRemoteRevokeToAnnounce'), i2 == IV('LocalRemoved')), L, True)
    built_out = z3.If(o2 == OV('Committed'), True, z3.If(o2 == OV('AwaitingRemovedRemoteRevoke'), False, z3.Not(L)))
    S.prove('C01.d.next_superset_inbound', E2, [], z3.Implies(built_in, nin),
            'every inbound HTLC that a commitment built now for side X contains is also in the predicted next set for X', bindings=pb, bounds='5 states x 2 sides')
    inc_unknown = X.zbool(fn2.extra_caps['include_counterparty_unknown_htlcs'].t) if 'include_counterparty_unknown_htlcs' in getattr(fn2, 'extra_caps', {}) else None
    if inc_unknown is None:
        raise Inconclusive('outbound filter of get_next_commitment_htlcs does not capture include_counterparty_unknown_htlcs')
    S.prove('C01.d.local_announced_flag', E2, [o2 == OV('LocalAnnounced')], nout == inc_unknown,
            'an outbound HTLC the counterparty does not know yet is predicted exactly when the caller asks to include unknown HTLCs', bindings=pb)
    S.prove('C01.d.next_superset_outbound', E2, [o2 != OV('LocalAnnounced')], z3.Implies(built_out, z3.Or(nout, z3.And(o2 == OV('AwaitingRemoteRevokeToRemove'), z3.Not(L)))),
            'every outbound HTLC that a commitment built now for side X contains is in the predicted next set for X, except AwaitingRemoteRevokeToRemove on the remote side (no remote commitment can be generated in that state)', bindings=pb, bounds='4 states x 2 sides (LocalAnnounced depends on the include-unknown flag)')
    # (ii) each HTLC is accounted for exactly once per side: in the next set, or excluded and credited
    #      to its receiver (only when a preimage is known), or excluded and left with its sender
    S.prove('C01.d.account_once_inbound', E2, [], cin == z3.And(z3.Not(nin), in_succ2),
            'an inbound HTLC is credited to us in the predicted balance exactly when it is excluded from the predicted set and was fulfilled', bindings=pb, bounds='5 states x 2 reasons x 2 sides')
    S.prove('C01.d.account_once_outbound', E2, [o2 != OV('LocalAnnounced')], cout == z3.And(z3.Not(nout), o_succ2),
            'an outbound HTLC is debited from us in the predicted balance exactly when it is excluded from the predicted set and succeeded', bindings=pb, bounds='4 states x 2 outcomes x 2 sides')
    S.no_panic('C01.d.closures.nopanic', E2, [], 'prediction filters are total')
    S.witness('C01.d.witness', E2, [], z3.And(cin, cout))


# ---- C01.e: reported send limits are sound against the peer's acceptance checks -------------------
def send_limits(S, D, N):
    """quiescent mirrored state: every pending HTLC is committed on both sides, no fee update in
    flight.  For b = get_available_balances(our view) and every amount a in [b.min, b.limit], the checks
    the peer runs in validate_update_add_htlc - re-expressed over the same real get_next_commitment_stats
    with holder/counterparty swapped - all pass."""
    E = S.engine()
    mem = {}
    fb = S.fn('get_available_balances', nargs=9)
    fs = S.fn('get_next_commitment_stats', nargs=11)
    funder = E.sym('funder', 'bool')
    V, Sv, fr, maxdust = E.sym('V', 'u64'), E.sym('S', 'u64'), E.sym('f', 'u32'), E.sym('maxdust', 'u64')
    ct, tag = chan_type(E, mem)
    n = z3.Int('n')
    E.assume(z3.And(n >= 0, n <= N))
    outb = [z3.Bool('h%d.outbound' % i) for i in range(N)]
    amt = [E.int_sym('h%d.amount' % i, 'u64').t for i in range(N)]
    HD = D.struct_fields('HTLCAmountDirection')

    def dirs(extra=None, mirror=False):
        el = [X.Adt('HTLCAmountDirection', {HD.index('outbound'): X.B(z3.Not(outb[i]) if mirror else outb[i]), HD.index('amount_msat'): X.I(amt[i], 'u64')}) for i in range(N)]
        pres = [n > i for i in range(N)]
        if extra is not None:
            el.append(extra)
            pres.append(True)
        seq = X.Seq(el, None, 'HTLCAmountDirection', pres=pres)
        c = E.new_cell()
        mem[c] = seq
        return X.Ref(c)
    CC = D.struct_fields('ChannelConstraints')
    names = ['holder_dust_limit_satoshis', 'counterparty_selected_channel_reserve_satoshis', 'counterparty_dust_limit_satoshis',
             'holder_selected_channel_reserve_satoshis', 'counterparty_htlc_minimum_msat', 'counterparty_max_htlc_value_in_flight_msat', 'counterparty_max_accepted_htlcs']
    cv = {nm: E.sym('c.' + nm, 'u64') for nm in names}
    cons = X.Adt('ChannelConstraints', {CC.index(nm): cv[nm] for nm in names})
    none32 = X.En('Option', 0, {})
    bal = S.call(E, fb, [funder, V, Sv, dirs(), fr, none32, maxdust, cons, ct], mem)
    AB = D.struct_fields('AvailableBalances')
    limit = bal.fs[AB.index('next_outbound_htlc_limit_msat')].t
    minimum = bal.fs[AB.index('next_outbound_htlc_minimum_msat')].t
    bal_panics = list(E.panics)

    a = E.sym('a', 'u64')
    NS = D.struct_fields('NextCommitmentStats')

    def stats(local, is_funder, to_holder, htlcs_ref, dust):
        r = S.call(E, fs, [X.B(local), is_funder, V, to_holder, htlcs_ref, X.I(0, 'usize'), fr, X.B(False), none32, dust, ct], mem)
        ok = X.zint(r.d) == 0
        st = r.vs[0][0]
        return ok, st.fs[NS.index('holder_balance_msat')].t, st.fs[NS.index('counterparty_balance_msat')].t
    hdust, cdust = cv['holder_dust_limit_satoshis'], cv['counterparty_dust_limit_satoshis']
    # current state is itself valid on both commitments (we signed / accepted them)
    cur_l_ok, _, _ = stats(True, funder, Sv, dirs(), hdust)
    cur_r_ok, _, _ = stats(False, funder, Sv, dirs(), cdust)
    # peer's view with the candidate: the peer is the holder, roles / dust limits swapped
    peer_funder = X.B(z3.Not(X.zbool(funder.t)))
    peer_S = X.I(V.t * 1000 - Sv.t, 'u64')
    cand_in = X.Adt('HTLCAmountDirection', {HD.index('outbound'): X.B(False), HD.index('amount_msat'): a})
    p_remote_ok, p_remote_holder, p_remote_cp = stats(False, peer_funder, peer_S, dirs(cand_in, mirror=True), hdust)   # our commitment, seen by the peer
    p_local_ok, _, _ = stats(True, peer_funder, peer_S, dirs(cand_in, mirror=True), cdust)                             # the peer's own commitment
    out_total = sum([z3.If(z3.And(n > i, outb[i]), amt[i], 0) for i in range(N)])
    in_total = sum([z3.If(z3.And(n > i, z3.Not(outb[i])), amt[i], 0) for i in range(N)])
    out_count = sum([z3.If(z3.And(n > i, outb[i]), 1, 0) for i in range(N)])
    res_peer_on_us = cv['counterparty_selected_channel_reserve_satoshis'].t   # reserve the peer requires of us
    pre = [V.t <= SUPPLY_SAT, V.t >= 1000, Sv.t <= V.t * 1000, z3.Implies(tag == 2, fr.t == 0),
           hdust.t == 354, cdust.t >= 354, cdust.t <= 10000,   # LDK's own dust limit is the constant MIN_CHAN_DUST_LIMIT_SATOSHIS

           cv['counterparty_selected_channel_reserve_satoshis'].t <= V.t, cv['holder_selected_channel_reserve_satoshis'].t <= V.t,
           cv['counterparty_max_accepted_htlcs'].t <= 483,
           Sv.t - out_total >= 0, V.t * 1000 - Sv.t - in_total >= 0, cur_l_ok, cur_r_ok] + [x <= V.t * 1000 for x in amt]
    in_range = z3.And(a.t >= minimum, a.t <= limit, a.t >= 1)
    shapes = [n == 0] + [z3.And(n >= 1, outb[0] == ob_) for ob_ in (True, False)]
    case = [z3.And(tag == k, X.zbool(funder.t) == fb_, sh_) for k in range(3) for fb_ in (True, False) for sh_ in shapes]
    flat = []
    sy = [z3.Bool('o.h%d.outbound' % i) for i in range(N)]
    for i in range(N):
        E.assume(sy[i] == outb[i])
        flat += [sy[i], amt[i]]
    clist = [cv[nm].t for nm in names]
    b_bal = Binding('get_available_balances', [funder.t, V.t, Sv.t, n] + flat + [fr.t, z3.IntVal(0), z3.IntVal(0), maxdust.t] + clist + [tag],
                    [bal.fs[AB.index(k)].t for k in ['inbound_capacity_msat', 'outbound_capacity_msat', 'next_outbound_htlc_limit_msat', 'next_outbound_htlc_minimum_msat', 'dust_exposure_msat', 'next_splice_out_maximum_sat']],
                    panic=z3.Or(*[X.zbool(p[0]) for p in bal_panics]) if bal_panics else False, line_fn=htlc_line(3, 3, N, None))
    # peer-side stats call, mirrored list + candidate (as an inbound HTLC of the peer)
    mflat = []
    msy = [z3.Bool('o.m%d.outbound' % i) for i in range(N)]
    for i in range(N):
        E.assume(msy[i] == z3.Not(outb[i]))
        mflat += [msy[i], amt[i]]
    pf, pS, n1 = z3.Bool('o.peer_funder'), z3.Int('o.peer_S'), z3.Int('o.n1')
    E.assume(pf == z3.Not(X.zbool(funder.t))); E.assume(pS == V.t * 1000 - Sv.t); E.assume(n1 == n + 1)

    def cand_line(vals):
        # vals: local funder V S n1 [pairs]*N cand_flag cand_amt addl f spike limd limv dust tag ; keep first n pairs then the candidate
        local_, fnd, V_, S_, nn = vals[:5]
        pairs = vals[5:5 + 2 * N]
        cflag, camt = vals[5 + 2 * N:7 + 2 * N]
        rest = vals[7 + 2 * N:]
        k = nn - 1
        return ' '.join(str(v) for v in [local_, fnd, V_, S_, nn] + pairs[:2 * k] + [cflag, camt] + rest)
    b_peer = Binding('get_next_commitment_stats', [z3.BoolVal(False), pf, V.t, pS, n1] + mflat + [z3.BoolVal(False), a.t, z3.IntVal(0), fr.t, z3.BoolVal(False), z3.IntVal(0), z3.IntVal(0), hdust.t, tag],
                     [z3.If(p_remote_ok, 0, 1), z3.If(p_remote_ok, p_remote_holder, 0), z3.If(p_remote_ok, p_remote_cp, 0), None], line_fn=cand_line,
                     parse=lambda t: [int(t[0]), int(t[1]), int(t[2]), None])
    b_peer_l = Binding('get_next_commitment_stats', [z3.BoolVal(True), pf, V.t, pS, n1] + mflat + [z3.BoolVal(False), a.t, z3.IntVal(0), fr.t, z3.BoolVal(False), z3.IntVal(0), z3.IntVal(0), cdust.t, tag],
                       [z3.If(p_local_ok, 0, 1), None, None, None], line_fn=cand_line, parse=lambda t: [int(t[0]), None, None, None])
    binds = [b_bal, b_peer, b_peer_l]
    # hinted witness: the satisfiability of pre /\ in_range is shown on a nearly concrete state (a model of the
    # stronger formula is a model of the weaker one); the unhinted query took 7 s .. > 300 s depending on the seed
    hints = [V.t == 10_000_000, Sv.t == 5_000_000_000, fr.t == 1000, X.zbool(funder.t), cdust.t == 354, maxdust.t == 5_000_000_000,
             cv['counterparty_selected_channel_reserve_satoshis'].t == 100_000, cv['holder_selected_channel_reserve_satoshis'].t == 100_000,
             cv['counterparty_htlc_minimum_msat'].t == 1, cv['counterparty_max_htlc_value_in_flight_msat'].t == 10_000_000_000,
             cv['counterparty_max_accepted_htlcs'].t == 483] + [x == 2_000_000 for x in amt]
    S.witness('C01.e.witness', E, pre + hints + [in_range, n == N, a.t > 1000000, tag == 0])
    S.no_panic('C01.e.balances_nopanic', E, pre, 'get_available_balances reaches no panic on any valid quiescent state', [b_bal], only=lambda p: p in bal_panics, split=case)
    S.prove('C01.e.peer_accepts_amounts', E, pre + [in_range], z3.And(p_remote_ok, p_local_ok),
            'for every amount inside the reported [minimum, limit] the peer\'s next-commitment computations (their view of our commitment and their own commitment, with the HTLC added) succeed: neither side overdraws, the funder covers the fee, each commitment keeps an output',
            binds, bounds='N=%d pending HTLCs, all amounts/feerates/reserves/dust limits within Pre, 3 channel types x funder' % N, split=case, given_no_panic=True)
    S.prove('C01.e.peer_reserve_respected', E, pre + [in_range, p_remote_ok], p_remote_cp >= res_peer_on_us * 1000,
            'after adding an HTLC inside the limits our balance on our commitment (as the peer computes it) stays at or above the reserve the peer selected for us',
            binds, split=case, given_no_panic=True)
    S.prove('C01.e.peer_limits_respected', E, pre + [in_range], z3.And(out_count + 1 <= cv['counterparty_max_accepted_htlcs'].t,
            out_total + a.t <= cv['counterparty_max_htlc_value_in_flight_msat'].t, a.t >= cv['counterparty_htlc_minimum_msat'].t),
            'an HTLC inside the limits respects the peer\'s max_accepted_htlcs, max_htlc_value_in_flight and htlc_minimum',
            [b_bal], split=case, given_no_panic=True)


def dust_exposure_limit(S, D, N, prefix='C02.d'):
    """every HTLC amount inside the reported send limits keeps the dust exposure of both commitments
    within max_dust_htlc_exposure_msat (if it was within the limit before)"""
    E = S.engine()
    mem = {}
    fb = S.fn('get_available_balances', nargs=9)
    fs = S.fn('get_next_commitment_stats', nargs=11)
    funder = E.sym('funder', 'bool')
    V, Sv, fr, maxdust = E.sym('V', 'u64'), E.sym('S', 'u64'), E.sym('f', 'u32'), E.sym('maxdust', 'u64')
    ct, tag = chan_type(E, mem)
    n = z3.Int('n')
    E.assume(z3.And(n >= 0, n <= N))
    outb = [z3.Bool('h%d.outbound' % i) for i in range(N)]
    amt = [E.int_sym('h%d.amount' % i, 'u64').t for i in range(N)]
    HD = D.struct_fields('HTLCAmountDirection')

    def dirs(extra=None):
        el = [X.Adt('HTLCAmountDirection', {HD.index('outbound'): X.B(outb[i]), HD.index('amount_msat'): X.I(amt[i], 'u64')}) for i in range(N)]
        pres = [n > i for i in range(N)]
        if extra is not None:
            el.append(extra)
            pres.append(True)
        c = E.new_cell()
        mem[c] = X.Seq(el, None, 'HTLCAmountDirection', pres=pres)
        return X.Ref(c)
    CC = D.struct_fields('ChannelConstraints')
    names = ['holder_dust_limit_satoshis', 'counterparty_selected_channel_reserve_satoshis', 'counterparty_dust_limit_satoshis',
             'holder_selected_channel_reserve_satoshis', 'counterparty_htlc_minimum_msat', 'counterparty_max_htlc_value_in_flight_msat', 'counterparty_max_accepted_htlcs']
    cv = {nm: E.sym('c.' + nm, 'u64') for nm in names}
    cons = X.Adt('ChannelConstraints', {CC.index(nm): cv[nm] for nm in names})
    none32 = X.En('Option', 0, {})
    bal = S.call(E, fb, [funder, V, Sv, dirs(), fr, none32, maxdust, cons, ct], mem)
    AB = D.struct_fields('AvailableBalances')
    limit = bal.fs[AB.index('next_outbound_htlc_limit_msat')].t
    minimum = bal.fs[AB.index('next_outbound_htlc_minimum_msat')].t
    a = E.sym('a', 'u64')
    NS = D.struct_fields('NextCommitmentStats')
    hdust, cdust = cv['holder_dust_limit_satoshis'], cv['counterparty_dust_limit_satoshis']

    def exposure(local, htlcs_ref, dust):
        r = S.call(E, fs, [X.B(local), funder, V, Sv, htlcs_ref, X.I(0, 'usize'), fr, X.B(False), none32, dust, ct], mem)
        return X.zint(r.d) == 0, r.vs[0][0].fs[NS.index('dust_exposure_msat')].t
    cur_l_ok, cur_l = exposure(True, dirs(), hdust)
    cur_r_ok, cur_r = exposure(False, dirs(), cdust)
    cand = X.Adt('HTLCAmountDirection', {HD.index('outbound'): X.B(True), HD.index('amount_msat'): a})
    new_l_ok, new_l = exposure(True, dirs(cand), hdust)
    new_r_ok, new_r = exposure(False, dirs(cand), cdust)
    out_total = sum([z3.If(z3.And(n > i, outb[i]), amt[i], 0) for i in range(N)])
    in_total = sum([z3.If(z3.And(n > i, z3.Not(outb[i])), amt[i], 0) for i in range(N)])
    pre = [V.t <= SUPPLY_SAT, V.t >= 1000, Sv.t <= V.t * 1000, z3.Implies(tag == 2, fr.t == 0),
           hdust.t == 354, cdust.t >= 354, cdust.t <= 10000,
           cv['counterparty_selected_channel_reserve_satoshis'].t <= V.t, cv['holder_selected_channel_reserve_satoshis'].t <= V.t,
           cv['counterparty_max_accepted_htlcs'].t <= 483,
           Sv.t - out_total >= 0, V.t * 1000 - Sv.t - in_total >= 0, cur_l_ok, cur_r_ok, cur_l <= maxdust.t, cur_r <= maxdust.t,
           a.t >= minimum, a.t <= limit, a.t >= 1, new_l_ok, new_r_ok] + [x <= V.t * 1000 for x in amt]
    case = [z3.And(tag == k, X.zbool(funder.t) == fb_) for k in range(3) for fb_ in (True, False)]
    flat = []
    sy = [z3.Bool('o.h%d.outbound' % i) for i in range(N)]
    for i in range(N):
        E.assume(sy[i] == outb[i])
        flat += [sy[i], amt[i]]
    clist = [cv[nm].t for nm in names]
    b_bal = Binding('get_available_balances', [funder.t, V.t, Sv.t, n] + flat + [fr.t, z3.IntVal(0), z3.IntVal(0), maxdust.t] + clist + [tag],
                    [bal.fs[AB.index(k)].t for k in ['inbound_capacity_msat', 'outbound_capacity_msat', 'next_outbound_htlc_limit_msat', 'next_outbound_htlc_minimum_msat', 'dust_exposure_msat', 'next_splice_out_maximum_sat']],
                    line_fn=htlc_line(3, 3, N, None))
    n1 = z3.Int('o.n1')
    E.assume(n1 == n + 1)

    def cand_line(vals):
        local_, fnd, V_, S_, nn = vals[:5]
        pairs = vals[5:5 + 2 * N]
        cflag, camt = vals[5 + 2 * N:7 + 2 * N]
        rest = vals[7 + 2 * N:]
        return ' '.join(str(v) for v in [local_, fnd, V_, S_, nn] + pairs[:2 * (nn - 1)] + [cflag, camt] + rest)

    def b_stats(local, dust, ok, expo):
        return Binding('get_next_commitment_stats', [z3.BoolVal(local), funder.t, V.t, Sv.t, n1] + flat + [z3.BoolVal(True), a.t, z3.IntVal(0), fr.t, z3.BoolVal(False), z3.IntVal(0), z3.IntVal(0), dust.t, tag],
                       [z3.If(ok, 0, 1), None, None, z3.If(ok, expo, 0)], line_fn=cand_line, parse=lambda t: [int(t[0]), None, None, int(t[3])])
    binds = [b_bal, b_stats(True, hdust, new_l_ok, new_l), b_stats(False, cdust, new_r_ok, new_r)]
    S.witness(prefix + '.witness', E, pre + [n == N, new_l > cur_l])
    S.prove(prefix + '.dust_exposure_within_limit', E, pre, z3.And(new_l <= maxdust.t, new_r <= maxdust.t),
            'an HTLC inside the reported send limits never pushes the dust exposure of our or the counterparty commitment above max_dust_htlc_exposure_msat (when it was within the limit before)',
            binds, bounds='N=%d pending HTLCs, all amounts/feerates/dust limits within Pre, no dust-exposure limiting feerate' % N, split=case, given_no_panic=True)


# ---- C01.f: cooperative close arithmetic ------------------------------------------------------
def closing(S, D):
    import re

    def run_side(E, mem, name, funder_b, V, Sself, dust, fee, skip):
        """build_closing_transaction on one node's view; returns (ok, to_holder, to_counterparty, total_fee, panics)"""
        f = S.fn('build_closing_transaction', first_param='FundedChannel')
        obs = {}

        def h_new(E_, m, func, argv, *r):
            obs['h'], obs['c'] = argv[0], argv[1]
            return X.Opaque('ClosingTransaction')
        E.models.insert(0, (re.compile(r'ClosingTransaction::new$'), h_new))
        E.models.insert(0, (re.compile(r'FundingScope::is_outbound$'), lambda *a: funder_b))
        E.models.insert(0, (re.compile(r'FundingScope::get_value_satoshis$'), lambda *a: V))
        E.models.insert(0, (re.compile(r'::funding_outpoint$|::get_closing_scriptpubkey$|::into_bitcoin_outpoint$'), lambda *a: X.Opaque('script/outpoint')))
        chan = E.sym(name, f.params[0][1], mem)
        cv = mem[chan.cell]
        # plant the symbolic balance / dust limit into the lazy channel struct
        FC = D.struct_fields('FundedChannel')
        funding = E.read_path(cv, (('f', FC.index('funding'), 'ln::channel::FundingScope'),), mem, True, 'spec')
        context = E.read_path(cv, (('f', FC.index('context'), 'ln::channel::ChannelContext<SP>'),), mem, True, 'spec')
        vts = field(E, D, 'FundingScope', 'value_to_self_msat', funding, 'u64', hint='ln/channel.rs')
        hd = field(E, D, 'ChannelContext', 'holder_dust_limit_satoshis', context, 'u64')
        E.assume(vts.t == Sself)
        E.assume(hd.t == dust)
        # shutdown scripts are present once shutdown has been exchanged
        for nm, ty in (('shutdown_scriptpubkey', 'Option<ln::script::ShutdownScript>'), ('counterparty_shutdown_scriptpubkey', 'Option<bitcoin::ScriptBuf>')):
            o = field(E, D, 'ChannelContext', nm, context, ty)
            E.assume(X.zint(o.d) == 1)
        upd = field(E, D, 'ChannelContext', 'pending_update_fee', context, 'Option<(u32, ln::channel::FeeUpdateState)>')
        E.assume(X.zint(upd.d) == 0)
        npan = len(E.panics)
        rv = S.call(E, f, [chan, fee, skip], mem)
        ret = S.ret_guard
        if 'h' not in obs:
            raise Inconclusive('ClosingTransaction::new not reached')
        ok = z3.And(ret, X.zint(rv.d) == 0)
        total_fee = rv.vs[0][0].fs[1].t
        return ok, obs['h'].t, obs['c'].t, total_fee, E.panics[npan:]

    # node A's and node B's view of the same channel (B is A's counterparty): equal dust limits
    E = S.engine()
    E.slice_cap = 0         # no pending HTLCs (asserted by the function)
    mem = {}
    funder = E.sym('a_is_funder', 'bool')
    V, Sa, dust, fee = E.sym('V', 'u64'), E.sym('S', 'u64'), E.sym('dust', 'u64'), E.sym('fee', 'u64')
    skip = E.sym('skip', 'bool')
    okA, hA, cA, feeA, panA = run_side(E, mem, 'chanA', funder, V, Sa.t, dust.t, fee, skip)
    Sb = X.I(V.t * 1000 - Sa.t, 'u64')
    okB, hB, cB, feeB, panB = run_side(E, mem, 'chanB', X.B(z3.Not(X.zbool(funder.t))), V, V.t * 1000 - Sa.t, dust.t, fee, X.B(False))
    bal_a = Sa.t / 1000
    bal_b = (V.t * 1000 - Sa.t) / 1000
    fund = X.zbool(funder.t)
    pre = [V.t <= SUPPLY_SAT, V.t >= 1000, Sa.t <= V.t * 1000, dust.t >= 354, dust.t <= 10000,
           # the negotiated fee is affordable by the funder (enforced by the closing_signed fee-range checks)
           z3.If(fund, fee.t <= bal_a, fee.t <= bal_b)]
    bA = Binding('closing_probe', [funder.t, Sa.t, dust.t, fee.t, skip.t], [z3.If(okA, 0, 1), z3.If(okA, hA, 0), z3.If(okA, cA, 0), z3.If(okA, feeA, 0)],
                 panic=z3.Or(*[X.zbool(p[0]) for p in panA]) if panA else False, which='oracle_tu')
    nf, sb_, ff = z3.Bool('o.b_is_funder'), z3.Int('o.Sb'), z3.Bool('o.false')
    E.assume(nf == z3.Not(fund)); E.assume(sb_ == V.t * 1000 - Sa.t); E.assume(ff == False)
    bB = Binding('closing_probe', [nf, sb_, dust.t, fee.t, ff], [z3.If(okB, 0, 1), z3.If(okB, hB, 0), z3.If(okB, cB, 0), z3.If(okB, feeB, 0)],
                 panic=z3.Or(*[X.zbool(p[0]) for p in panB]) if panB else False, which='oracle_tu')
    native = [V.t == 100000]       # the two-node probe uses the functional-test channel of 100_000 sat
    S.witness('C01.f.witness', E, pre + native + [z3.Not(X.zbool(skip.t))], z3.And(okA, okB, hA > 0, cA > 0))
    S.prove('C01.f.peers_agree', E, pre + native + [z3.Not(X.zbool(skip.t))], z3.And(okA, okB, hA == cB, cA == hB, feeA == feeB),
            'for equal dust limits both peers build the same closing transaction from mirrored state: A\'s own output equals what B pays A and vice versa, with the same total fee - so honest cooperative closes never end in a signature mismatch',
            [bA, bB], bounds='all balances / fees / dust limits within Pre; channel value fixed to 100000 sat for native replay')
    S.prove('C01.f.pays_final_balances', E, pre + [z3.Not(X.zbool(skip.t))], z3.Implies(okA, z3.And(
        hA == z3.If(bal_a - z3.If(fund, fee.t, 0) > dust.t, bal_a - z3.If(fund, fee.t, 0), 0),
        cA == z3.If(bal_b - z3.If(fund, 0, fee.t) > dust.t, bal_b - z3.If(fund, 0, fee.t), 0),
        hA + cA + fee.t <= V.t)),
        'a cooperative close pays each party its final balance (rounded down to whole satoshis), less the negotiated fee for the funder only; outputs at or below the dust limit are dropped; outputs + fee never exceed the channel value',
        [bA], bounds='all channel values <= 21e14 sat')
    S.no_panic('C01.f.nopanic', E, pre, 'no overflow / failed assert when the funder can afford the fee')
    S.no_panic('C01.f.nopanic_native', E, pre + native, 'same, at the channel value the native probe uses', [bA, bB])


def closing_fee_range(S, D):
    import re
    """C01.g: FundedChannel::closing_signed, the fee-range negotiation (region from the computation of our own fee limits
    to the fee that is proposed / the error returned): a close both sides can agree on is never refused. With the peer's
    range [min, max] (its proposal inside it) and ours [our_min, our_max]: a "cannot come to consensus" warning is returned
    exactly when the ranges are disjoint; otherwise the fee we answer with lies in BOTH ranges (the fundee picks the highest
    common fee, the funder accepts the peer's proposal iff it is inside our range)."""
    ids = ['C01.g.consensus_iff_ranges_intersect', 'C01.g.witness']
    if all(S._skip(o) for o in ids):
        return
    f = S.fn('closing_signed', first_param='FundedChannel')
    E = S.engine(unwind=1)
    mem = {}
    calls = lambda rx: [b for b, (bd, t) in f.blocks.items() if t[0] == 'call' and re.search(rx, t[2])]
    lim = calls(r'FundedChannel::<.*>::calculate_closing_fee_limits::<')
    if len(lim) != 1:
        raise X.Unsupported('closing_signed: %d computations of our fee limits' % len(lim))
    our_min, our_max = E.sym('our_min_fee', 'u64'), E.sym('our_max_fee', 'u64')
    pmin, pmax, pfee = E.sym('peer.min_fee', 'u64'), E.sym('peer.max_fee', 'u64'), E.sym('peer.fee_satoshis', 'u64')
    E.assume(our_min.t <= our_max.t)
    outbound = z3.Bool('we_are_funder')
    CS = D.struct_fields('ClosingSigned')
    FR = D.struct_fields('ClosingSignedFeeRange')
    msg_c = E.new_cell()
    mem[msg_c] = X.Adt('ClosingSigned', {CS.index('fee_satoshis'): pfee,
                                         CS.index('fee_range'): X.En('Option', 1, {1: [X.Adt('ClosingSignedFeeRange', {FR.index('min_fee_satoshis'): pmin, FR.index('max_fee_satoshis'): pmax}, base='range')]})}, base='msg')
    proposed, closes = [], []
    CE = lambda n: D.variant_index('ChannelError', n)

    def h_get_msg(E_, m, func, argv, guard, mem_, dty, caller):
        proposed.append((X.zbool(guard), argv[3]))
        return X.En('Option', 0, {})
    for rx, h in [
        (r'FundedChannel::<.*>::calculate_closing_fee_limits::<', lambda *a: X.Tup([our_min, our_max])),
        (r'FundingScope::is_outbound$', lambda *a: X.B(outbound)),
        (r'FundingScope::get_value_satoshis$', lambda *a: E.sym('value!%d' % next(E.nfresh), 'u64')),
        (r'FundedChannel::<.*>::build_closing_transaction$', lambda E_, m, func, argv, *a: X.En('Result', 0, {0: [X.Tup([X.Opaque('closing tx'), argv[1]])]})),
        (r'FundedChannel::<.*>::get_closing_signed_msg::<', h_get_msg),
        (r'ChannelError::close$', lambda *a: X.En('ChannelError', CE('Close'), {CE('Close'): [X.Opaque('reason')]})),
        (r'^format$|^must_use::<', lambda *a: X.Opaque('string')),
        (r'Arguments::<.*>::from_str$|Arguments::<.*>::new', lambda *a: X.Opaque('fmt args')),
        (r'Argument::<.*>::new_', lambda *a: X.Opaque('fmt arg')),
        (r'^std::mem::drop::<|drop_in_place', lambda *a: X.UNIT),
        (r'u64>::div_ceil$', lambda *a: E.sym('ceil!%d' % next(E.nfresh), 'u64')),
    ]:
        E.models.insert(0, (re.compile(rx), h))
    stops = [f.blocks[b][1][4] for b in calls(r'FundedChannel::<.*>::get_closing_signed_msg::<')]
    # the message is the function's second parameter; its local index is its position
    args = [E.sym('self', f.params[0][1], mem), X.Opaque('fee estimator'), X.Ref(msg_c), X.Opaque('logger')][:len(f.params)]
    msg_local = [i + 1 for i, (n_, t_) in enumerate(f.params) if 'ClosingSigned' in t_]
    if len(msg_local) != 1:
        raise X.Unsupported('closing_signed: message parameter not found')
    init = {msg_local[0]: X.Ref(msg_c)}
    # copies of msg.fee_satoshis made before the region starts
    pat = re.compile(r"\('assign', \('local', (\d+)\), \('use', \('copy', \('field', \('deref', \('local', %d\)\), %d, 'u64'\)\)\)\)" % (msg_local[0], CS.index('fee_satoshis')))
    for b_, (bd, t) in f.blocks.items():
        for st in bd:
            m_ = pat.match(str(st))
            if m_:
                init[int(m_.group(1))] = pfee
    runr = X.FnRun(E, f, args, True, mem)
    E.depth += 1
    rv, ret, m2 = runr.run(start_bb=lim[0], init=init, stop_bbs=tuple(stops))
    E.depth -= 1
    returned = X.zbool(ret) if rv is not None else z3.BoolVal(False)
    is_err = z3.And(returned, X.zint(rv.d) == 1) if rv is not None else z3.BoolVal(False)
    err = rv.vs[1][0] if rv is not None and 1 in rv.vs else None
    warn = z3.And(is_err, X.zint(err.d) == CE('Warn')) if err is not None else z3.BoolVal(False)
    close = z3.And(is_err, X.zint(err.d) == CE('Close')) if err is not None else z3.BoolVal(False)
    disjoint = z3.Or(pmax.t < our_min.t, pmin.t > our_max.t)
    any_prop = z3.Or(*[g for g, v in proposed]) if proposed else z3.BoolVal(False)
    in_both = [z3.Implies(g, z3.And(X.zint(v.t) >= pmin.t, X.zint(v.t) <= pmax.t, X.zint(v.t) >= our_min.t, X.zint(v.t) <= our_max.t)) for g, v in proposed]
    pre = [pmin.t <= pfee.t, pfee.t <= pmax.t]         # a proposal outside the peer's own range is a protocol error (closed), not negotiated
    b = Binding('closing_fee_range_battery', [z3.IntVal(1)], [None], parse=lambda t: [0 if t[0] == '0' else 1], line_fn=lambda v: '1', which='oracle_tu', via_solver=True, domain=[(1, 1)], panic=False)
    claim = z3.And(warn == disjoint, z3.Implies(z3.Not(disjoint), z3.And(any_prop == z3.Not(close), close == z3.And(outbound, z3.Or(pfee.t < our_min.t, pfee.t > our_max.t)))), *in_both)
    b.outs = [z3.If(claim, 0, 1)]
    S.prove(ids[0], E, pre, claim,
            'in the closing_signed fee-range negotiation the "unable to come to consensus" warning is returned exactly when the peer\'s fee range and ours have no fee in common - ranges that touch in a single value still close - and otherwise the fee we answer with lies inside both ranges (a funder only refuses a proposal outside its own range)',
            [b], given_no_panic=True, bounds='region of FundedChannel::closing_signed from calculate_closing_fee_limits to the proposed fee / the error; all u64 fees, both roles; transaction building and signing stubbed')
    S.witness(ids[1], E, pre + [pmax.t == our_min.t, z3.Not(outbound)], any_prop)
    S.validate('C01.g.validate', E, Binding('closing_fee_range_battery', [z3.IntVal(1)], [z3.IntVal(0)], parse=lambda t: [0 if t[0] == '0' else 1], line_fn=lambda v: '1', which='oracle_tu', via_solver=True, domain=[(1, 1)], panic=False), n=1, extra_vectors=[(1,)])
