"""C16.e / C16.f — regions of routing::router::get_route executed from its MIR.

C16.e  one application of the `add_entry!` macro (the step of the reverse Dijkstra that decides whether a candidate
       channel becomes the way to reach its source node) from an ARBITRARY state of get_route: every local that is live
       at the start of the expansion is havocked, the candidate is an arbitrary CandidateRouteHop, the graph / scorer /
       heap / hash-map look-ups are nondeterministic stubs.  The macro is expanded eight times in get_route; each
       expansion is a separate region (start: the block that resets `hop_contribution_amt_msat`, stop: the join after the
       `if Some(src_node_id) != $candidate.target()` block).
C16.f  one iteration of the loop that records, for every hop of a path just selected, the liquidity the path takes
       from that hop's channel (`used_liquidities`), from an arbitrary loop-head state.

Counterexamples are replayed through the public `find_route` on small graphs (native `route_validity_probe`, which
validates the returned route against the graph the way the property states it)."""
import re
import z3
from engine_m import exec as X
from engine_m.session import Binding
from .common import *

MAXU = U64


def _get_route(S):
    return S.fn('get_route', nargs=8)


def add_entry_regions(f):
    """[(start_bb, stop_bb, result_local)] of every expansion of add_entry! in get_route, found structurally:
    a block that resets an Option<u64> local to None and calls CandidateRouteHop::source, followed by target(), the
    `!=` on Option<NodeId> and the branch whose false edge leads (through one clean-up block) to the join."""
    out = []
    for bi in sorted(f.blocks):
        body, term = f.blocks[bi]
        if not (term[0] == 'call' and term[2].endswith('CandidateRouteHop::<\'_>::source')):
            continue
        res = [st[1][1] for st in body if st[0] == 'assign' and st[2] == ('use', ('const', 'Option::<u64>::None')) and st[1][0] == 'local']
        if not res:
            continue
        b = term[4]
        t = f.blocks[b][1]
        if not (t[0] == 'call' and t[2].endswith('::target')):
            continue
        t = f.blocks[t[4]][1]
        if not (t[0] == 'call' and t[2].endswith('::ne')):
            continue
        t = f.blocks[t[4]][1]
        if not (t[0] == 'switch' and 0 in t[2]):
            continue
        j = f.blocks[t[2][0]][1]
        if j[0] != 'goto':
            continue
        # where the expansion ends: the block after the clean-up of the skipped `if` (a real join when the macro's
        # result is not inspected) and, because jump threading sends the paths that leave the result at None straight to
        # the code that handles None, also every block that reads the result
        stops, stop_stmts = {j[1]}, {}
        for b2, (body2, term2) in f.blocks.items():
            if b2 == bi:
                continue
            rd = [si for si, st in enumerate(body2) if st[0] != 'nop' and (
                _mentions(st[2:], res[-1]) or (st[0] == 'assign' and st[1] != ('local', res[-1]) and _mentions(st[1], res[-1])))]
            if (term2[0] == 'call' and _mentions(term2[3], res[-1])) or (term2[0] in ('switch', 'assert') and _mentions(term2[1], res[-1])):
                rd.append(len(body2))
            if not rd:
                continue
            wr = [si for si, st in enumerate(body2) if st[0] == 'assign' and st[1] == ('local', res[-1])]
            if wr and wr[-1] < rd[0]:
                stop_stmts[b2] = wr[-1] + 1       # the macro's last statement and its first use share a block
            elif wr:
                raise X.Unsupported('add_entry!: result written after being read in bb%d' % b2)
            else:
                stops.add(b2)
        out.append((bi, (stops, stop_stmts), res[-1]))
    return out


def _mentions(obj, n):
    if isinstance(obj, tuple):
        if len(obj) == 2 and obj[0] == 'local' and obj[1] == n:
            return True
        return any(_mentions(x, n) for x in obj)
    if isinstance(obj, (list, dict)):
        return any(_mentions(x, n) for x in (obj.values() if isinstance(obj, dict) else obj))
    return False


def _local(f, name):
    # the outermost declaration (the first one printed): inner scopes may shadow the name
    v = next((pl for nm, pl in f.debug_all if nm == name), None)
    if v is None or not re.match(r'_\d+$', v):
        raise X.Unsupported('get_route: no local named %s' % name)
    return int(v[1:])


def _deref(E, v, mem, guard=True):
    while isinstance(v, X.Ref):
        v = E.read_path(mem[v.cell], v.path, mem, guard, 'stub')
    return v


# scenario lines of the native probe: <amount> <max_paths> <max_fee> <max_cltv> <mpp> <nfailed> <failed>* <nchan> (<kind> <scid> <src> <dst> <base> <prop> <min> <max> <cltv> <cap>)*
BIG = 1_000_000_000


def chan(kind, scid, src, dst, base=0, prop=0, mn=0, mx=BIG, cltv=40, cap=BIG):
    return '%d %d %d %d %d %d %d %d %d %d' % (kind, scid, src, dst, base, prop, mn, mx, cltv, cap)


def scenario(amount, chans, max_paths=1, max_fee=MAXU, max_cltv=1008, mpp=0, failed=()):
    return ' '.join(str(x) for x in [amount, max_paths, max_fee, max_cltv, mpp, len(failed)] + list(failed) + [len(chans)]) + ' ' + ' '.join(chans)


def shared_first_hop(cap):
    """us -(100)-> A, then two parallel announced channels A -> payee of 5000 msat each charging 100 msat: a 10000 msat
    MPP payment needs both and takes 10000 + 2*100 from the first channel"""
    return scenario(10000, [chan(1, 100, 0, 2, cap=cap), chan(0, 101, 2, 1, base=100, mx=5000), chan(0, 102, 2, 1, base=100, mx=5000)], max_paths=2, mpp=1)


def mask_bit(bit):
    return lambda toks: [None, 1 if int(toks[1]) & bit else 0]


def add_entry_step(S, D, which=None):
    f = _get_route(S)
    regions = add_entry_regions(f)
    if len(regions) < 4:
        raise X.Unsupported('add_entry! expansions in get_route: found %d' % len(regions))
    if which is None:
        which = (0, 2, 3) if S.tier == 'quick' else tuple(range(len(regions)))
    for k in which:
        if k < len(regions):
            _add_entry_region(S, D, f, k, *regions[k])


def _add_entry_region(S, D, f, k, start, stop, res_local):
    tag = 'C16.e.x%d' % k
    ids = [tag + s for s in ('.joint_capacity', '.htlc_minimum', '.limits', '.excluded', '.fee', '.bookkeeping', '.nopanic', '.witness', '.path_minimum', '.other_limits',
                             '.joint_capacity.live_states', '.excluded.live_states',
                             '.validate.capacity', '.validate.minimum', '.validate.limits', '.validate.excluded', '.validate.fee')]
    if all(S._skip(o) for o in ids):
        return
    E = S.engine(unwind=1)
    mem = {}
    args = [E.sym('a%d' % n, t, mem) if t.startswith('&') else X.Opaque('arg%d' % n) for n, t in f.params]
    run = X.FnRun(E, f, args, True, mem)
    RF = D.struct_fields('RoutingFees')
    PB = D.struct_fields('PathBuildingHop')
    PP = D.struct_fields('PaymentParameters')
    CV = lambda n: D.variant_index('CandidateRouteHop', n)
    r = {}
    named = {}
    for nm in ('minimal_value_contribution_msat', 'max_path_length', 'max_total_cltv_expiry_delta', 'max_total_routing_fee_msat',
               'payer_node_counter', 'recommended_value_msat'):
        n = _local(f, nm)
        named[nm] = E.sym('route.' + nm, f.locals[n])
    init = {_local(f, nm): v for nm, v in named.items()}
    src_ne_tgt = z3.Bool('env.src_differs_from_target')
    src_not_payer = z3.Bool('env.src_is_not_payer')
    htlc_max = E.sym('cand.htlc_max', 'u64')
    cltv = E.sym('cand.cltv_expiry_delta', 'u32')
    hmin = E.sym('cand.htlc_min', 'u64')
    base, prop = E.sym('cand.fee_base', 'u32'), E.sym('cand.fee_prop', 'u32')
    srcc = E.sym('cand.src_counter', 'u32')
    used_some, used = z3.Bool('env.used_liquidity_known'), E.sym('env.used_liquidity', 'u64')
    pen = E.sym('env.penalty', 'u64')
    bl_idx = E.sym('cand.blinded_hint_idx', 'usize')
    pushed = []
    uc = E.new_cell()
    mem[uc] = used
    in_failed = z3.Function('in_failed_scids', z3.IntSort(), z3.BoolSort())
    in_failed_b = z3.Function('in_failed_blinded', z3.IntSort(), z3.BoolSort())
    fee_fn = z3.Function('compute_fees_saturating', z3.IntSort(), z3.IntSort(), z3.IntSort(), z3.IntSort())
    dist_n = _local(f, 'dist')
    ety = re.match(r'(?:std::vec::)?Vec<(.*)>$', f.locals[dist_n]).group(1)
    ec = E.new_cell()
    old_entry = E.sym('dist_entry', ety, mem)
    mem[ec] = old_entry
    # the node-counter identity of the payer and the NodeId comparison are two views of the same fact
    E.assume((srcc.t == named['payer_node_counter'].t) == z3.Not(src_not_payer))

    def h_source(E_, m, func, argv, guard, mem_, dty, caller):
        r.setdefault('cand', argv[0])
        return X.Opaque('src')

    def h_blinded(E_, m, func, argv, guard, mem_, dty, caller):
        c = _deref(E, argv[0], mem_)
        d = X.zint(c.d)
        return X.En('Option', z3.If(z3.Or(d == CV('Blinded'), d == CV('OneHopBlinded')), 1, 0), {1: [bl_idx]})

    def h_contains(E_, m, func, argv, guard, mem_, dty, caller):
        v = _deref(E, argv[1], mem_)
        fld = [st[1] for st in argv[0].path if st[0] == 'f'][-1]
        fn_ = {PP.index('previously_failed_channels'): in_failed, PP.index('previously_failed_blinded_path_idxs'): in_failed_b}[fld]
        return X.B(fn_(v.t))

    def h_push(E_, m, func, argv, guard, mem_, dty, caller):
        pushed.append((X.zbool(guard), argv[1]))
        return X.UNIT

    def h_fee(E_, m, func, argv, guard, mem_, dty, caller):
        b_ = E.read_path(argv[1], (('f', RF.index('base_msat'), 'u32'),), mem_, guard, 'fee').t
        p_ = E.read_path(argv[1], (('f', RF.index('proportional_millionths'), 'u32'),), mem_, guard, 'fee').t
        v = E.sym('fee!%d' % next(E.nfresh), 'u64')
        E.assume(v.t == fee_fn(argv[0].t, b_, p_))
        return v
    for rx, h in [
        (r"CandidateRouteHop::<'_>::source$", h_source),
        (r"CandidateRouteHop::<'_>::target$", lambda *a: X.Opaque('tgt')),
        (r"Option<gossip::NodeId> as PartialEq>::ne$", lambda *a: X.B(src_ne_tgt)),
        (r"gossip::NodeId as PartialEq>::ne$", lambda *a: X.B(src_not_payer)),
        (r"CandidateRouteHop::<'_>::effective_capacity$", lambda *a: X.Opaque('capacity')),
        (r"router::max_htlc_from_capacity$", lambda *a: htlc_max),
        (r"CandidateRouteHop::<'_>::cltv_expiry_delta$", lambda *a: cltv),
        (r"CandidateRouteHop::<'_>::htlc_minimum_msat$", lambda *a: hmin),
        (r"CandidateRouteHop::<'_>::id$", lambda *a: X.Opaque('id')),
        (r"CandidateRouteHop::<'_>::fees$", lambda *a: X.Adt('RoutingFees', {RF.index('base_msat'): base, RF.index('proportional_millionths'): prop})),
        (r"CandidateRouteHop::<'_>::blinded_hint_idx$", h_blinded),
        (r"CandidateRouteHop::<'_>::src_node_counter$", lambda *a: srcc),
        (r"CandidateRouteHop<'_> as Clone>::clone$", lambda *a: X.Opaque('clone')),
        (r"HashMap::<.*CandidateHopId.*>::get::<", lambda *a: X.En('Option', z3.If(used_some, 1, 0), {1: [X.Ref(uc)]})),
        (r"Vec<u64> as (?:std::ops::)?Deref>::deref$", lambda E_, m, func, argv, *a: argv[0]),
        (r"slice::<impl \[u64\]>::contains$", h_contains),
        (r"BinaryHeap::<.*RouteGraphNode.*>::push$", h_push),
        (r"router::compute_fees_saturating$", h_fee),
        (r"as ScoreLookUp>::channel_penalty_msat$", lambda *a: pen),
        (r"Vec<Option<.*PathBuildingHop.*>> as (?:std::ops::)?IndexMut<usize>>::index_mut$", lambda *a: X.Ref(ec)),
    ]:
        E.models.insert(0, (re.compile(rx), h))
    succ, rpo, back, encl = run.analyse_cfg()
    stops = set(stop[0]) | set(encl[start])     # ... and the heads of the loops the expansion sits in (paths that `continue`)
    E.depth += 1
    rv_, ret_, m_ = run.run(start_bb=start, init=init, stop_bbs=stops, stop_stmts=stop[1])
    E.depth -= 1
    if not run.stop_states or rv_ is not None or run.cut_states:
        raise X.Unsupported('add_entry! expansion %d: region not closed (stops reached: %s, returns: %s, back to start: %d; %s)' % (
            k, sorted(run.stop_states, key=str), rv_ is not None, len(run.cut_states), [w for g_, w in E.unsupported][:3]))
    g_stop, m_stop = E.merge_mem([st for b_ in sorted(run.stop_states, key=str) for st in run.stop_states[b_]])
    mem = m_stop
    if len(pushed) != 1 or 'cand' not in r:
        raise X.Unsupported('add_entry! expansion %d: expected exactly one heap push (found %d); %s' % (k, len(pushed), [w for g_, w in E.unsupported][:3]))
    updated, node = pushed[0]
    # the candidate's own (executed, not stubbed) channel-id accessor on the same candidate value
    cand = r['cand']
    fs = S.fn('short_channel_id', first_param='CandidateRouteHop')
    sc = S.call(E, fs, [cand], mem)
    sc_some = X.zint(sc.d) == 1
    sc_val = E.en_payload(sc, 'Some', 1, 0, 'u64', mem, 'spec').t
    cv = _deref(E, cand, mem)
    cd = X.zint(cv.d)
    bl_some = z3.Or(cd == CV('Blinded'), cd == CV('OneHopBlinded'))
    ent = mem[ec]
    new = E.en_payload(ent, 'Some', 1, 0, ety[ety.index('<') + 1:-1], mem, 'spec')
    old = E.en_payload(old_entry, 'Some', 1, 0, ety[ety.index('<') + 1:-1], mem, 'spec')
    fld = lambda h, nm, ty='u64': E.read_path(h, (('f', PB.index(nm), ty),), mem, True, 'spec').t
    v, nf, huf, tf, pmin = [fld(new, n_) for n_ in ('value_contribution_msat', 'next_hops_fee_msat', 'hop_use_fee_msat', 'total_fee_msat', 'path_htlc_minimum_msat')]
    old_processed = z3.And(X.zint(old_entry.d) == 1, X.zbool(fld(old, 'was_processed', 'bool')))
    GN = D.struct_fields('RouteGraphNode')
    nfld = lambda nm, ty: E.read_path(node, (('f', GN.index(nm), ty),), mem, True, 'spec').t
    n_counter, n_cltv, n_v, n_len = nfld('node_counter', 'u32'), nfld('total_cltv_delta', 'u16'), nfld('value_contribution_msat', 'u64'), nfld('path_length_to_node', 'u8')
    ret = mem[run.cells[res_local]]
    ret_some = X.zint(ret.d) == 1
    ret_val = E.en_payload(ret, 'Some', 1, 0, 'u64', mem, 'spec').t
    used_eff = z3.If(used_some, used.t, 0)
    lim = {n_: named[n_].t for n_ in named}
    reach = X.zbool(g_stop)
    pre = [reach, lim['minimal_value_contribution_msat'] >= 1]
    panic = z3.Or(*[X.zbool(p[0]) for p in E.panics]) if E.panics else False
    kind = z3.If(cd == CV('PublicHop'), 0, z3.If(cd == CV('FirstHop'), 1, z3.If(cd == CV('PrivateHop'), 2, 3)))

    def B_(line, bit, live, extra_arg=None, out=None):
        # the scenario is fixed; `live` (second argument, pinned to 1) restricts the symbolic pre-state to the sub-space in
        # which the encoding's answer for the scenario's observable is determined
        args = ([extra_arg] if extra_arg is not None else []) + [z3.If(live, 1, 0)]
        return Binding('route_validity_probe', args, [None, out], parse=mask_bit(bit),
                       line_fn=(lambda vals: line(vals[0])) if extra_arg is not None else (lambda vals: line),
                       via_solver=True, domain=([(0, 2)] if extra_arg is not None else []) + [(1, 1)])
    # NOTE a claim that carries a replay binding is exactly the negation of the flag the binding predicts (what the native
    # validator can observe); side facts the validator cannot see are separate obligations without a binding.
    over = z3.And(updated, v + nf + used_eff > htlc_max.t)
    live_cap = z3.And(used_some, used.t > 0)
    # (2048: find_route panicked - in the dev profile the router's own debug assertions catch an over-subscribed channel
    # in max_final_value_msat before the route is returned)
    b_cap = B_(shared_first_hop(8000), 4 | 2048, live_cap, out=z3.If(over, 1, 0))
    S.prove(tag + '.joint_capacity.live_states', E, pre + [live_cap], z3.Not(over), 'the same for a channel earlier paths already use (the states the native scenario realises)', [b_cap])
    S.prove(ids[0], E, pre, z3.Not(over),
            'a candidate channel becomes (part of) a path only for an amount that, together with the fees of the hops after it and with the liquidity earlier paths already take from the same channel, fits into the channel\'s usable maximum (htlc_maximum / capacity / spendable balance as max_htlc_from_capacity reports it)',
            [b_cap], bounds='one application of add_entry! (expansion %d of %d in get_route) from an arbitrary state: all live locals havocked, candidate / graph / scorer / map look-ups stubbed' % (k, 8))
    under = z3.And(updated, v + nf < hmin.t)
    b_min = B_(scenario(10000, [chan(1, 100, 0, 2), chan(0, 101, 2, 1, mn=20000)]), 2, z3.BoolVal(True), out=z3.If(under, 1, 0))
    S.prove(ids[1], E, pre, z3.Not(under),
            'the amount the candidate channel is to carry (value plus later fees) is at least its htlc_minimum_msat',
            [b_min])
    S.prove(tag + '.path_minimum', E, pre, z3.Implies(updated, pmin >= hmin.t),
            'the minimum recorded for the path from this hop on is at least the candidate\'s htlc_minimum_msat', [])
    beyond = z3.And(updated, z3.Or(tf > lim['max_total_routing_fee_msat'], n_cltv > lim['max_total_cltv_expiry_delta']))
    b_lim = B_(scenario(10000, [chan(1, 100, 0, 2), chan(0, 101, 2, 3, base=500, cltv=100), chan(0, 102, 3, 1, base=500, cltv=100)], max_fee=499, max_cltv=50),
               32 | 64, z3.BoolVal(True), out=z3.If(beyond, 1, 0))
    S.prove(ids[2], E, pre, z3.Not(beyond),
            'a candidate is taken only while the path stays within the request\'s limits on the total routing fee and the total CLTV delta', [b_lim])
    S.prove(tag + '.other_limits', E, pre, z3.Implies(updated, z3.And(
        n_len <= lim['max_path_length'], n_cltv >= z3.If(cltv.t <= 65535, cltv.t, 0), v >= lim['minimal_value_contribution_msat'])),
        'likewise for the path length and the minimal contribution per path; the CLTV total includes the candidate\'s own delta', [])
    uses_failed = z3.And(updated, z3.Or(z3.And(sc_some, in_failed(sc_val)), z3.And(bl_some, in_failed_b(bl_idx.t))))

    def excl_line(kind_):
        if kind_ == 1:
            return scenario(10000, [chan(1, 100, 0, 1)], failed=[100])
        return scenario(10000, [chan(1, 100, 0, 2), chan(0 if kind_ == 0 else 2, 101, 2, 1)], failed=[101])
    live_exc = z3.And(sc_some, in_failed(sc_val), kind <= 2)
    b_exc = B_(excl_line, 16, live_exc, extra_arg=kind, out=z3.If(uses_failed, 1, 0))
    S.prove(tag + '.excluded.live_states', E, pre + [live_exc], z3.Not(uses_failed), 'the same for channels with a short channel id (the states the native scenarios realise)', [b_exc])
    S.prove(ids[3], E, pre, z3.Not(uses_failed),
            'a channel listed in previously_failed_channels - whatever kind of candidate it is: announced, one of our own channels, or a route-hint hop - and a blinded path listed in previously_failed_blinded_path_idxs is never taken',
            [b_exc])
    fee_ok = z3.And(huf == z3.If(src_not_payer, fee_fn(v + nf, base.t, prop.t), 0), tf == z3.If(nf + huf > MAXU, MAXU, nf + huf))
    b_fee = B_(scenario(100000, [chan(1, 100, 0, 2), chan(0, 101, 2, 3, base=1000, prop=5000), chan(0, 102, 3, 1, base=2000, prop=10000)]),
               8, src_not_payer, out=z3.If(z3.And(updated, z3.Not(fee_ok)), 1, 0))
    S.prove(ids[4], E, pre, z3.Implies(updated, fee_ok),
            'the fee recorded for using the candidate channel is compute_fees_saturating(amount it carries, its advertised policy) - zero only for our own channels - and the path\'s total fee is the later hops\' fees plus it (compute_fees itself: C16.a)',
            [b_fee])
    S.prove(ids[5], E, pre, z3.And(
        z3.Implies(updated, z3.And(src_ne_tgt, n_v == v, ret_some, ret_val == v, n_counter == srcc.t, z3.Not(old_processed), X.zint(ent.d) == 1)),
        z3.Implies(z3.Not(updated), z3.Not(ret_some))),
        'what the heap entry, the dist[] record and the macro\'s result say about one update agree (same contribution, the candidate\'s source node), an already processed node is never re-opened, and nothing is reported when nothing was updated', [])
    S.no_panic(ids[6], E, pre, 'the unreachable!() after checked_add and the u128 divisions by the contribution cannot be reached / divide by zero',
               [], only=lambda p: 'overflow' not in p[1], assumptions=['minimal_value_contribution_msat >= 1 (it is ceil(final_value / max_path_count) of a non-zero value)',
                                                                      'overflow of the u32 statistics counters and of the u8 path length is not examined here'])
    S.witness(ids[7], E, pre + [updated, used_some, used.t > 0, src_not_payer, sc_some, hmin.t > 0])
    for oid, b_, vecs in ((ids[8], b_cap, [(1,)]), (ids[9], b_min, [(1,)]), (ids[10], b_lim, [(1,)]), (ids[11], b_exc, [(0, 1), (1, 1), (2, 1)]), (ids[12], b_fee, [(1,)])):
        S.validate(oid, E, b_, n=len(vecs), extra_vectors=vecs)


def liquidity_bookkeeping(S, D):
    """C16.f"""
    ids = ['C16.f.spent_liquidity_recorded', 'C16.f.nopanic', 'C16.f.witness', 'C16.f.validate']
    if all(S._skip(o) for o in ids):
        return
    f = _get_route(S)
    E = S.engine(unwind=1)
    mem = {}
    args = [E.sym('a%d' % n, t, mem) if t.startswith('&') else X.Opaque('arg%d' % n) for n, t in f.params]
    run = X.FnRun(E, f, args, True, mem)
    succ, rpo, back, encl = run.analyse_cfg()
    head = None
    for h in sorted({h for (u, h) in back}):
        body = [b for b in rpo if h in encl[b]]
        inner = [b for b in body if encl[b] and encl[b][-1] == h]
        if any(f.blocks[b][1][0] == 'call' and re.search(r'Entry::<.*CandidateHopId, u64.*>::and_modify', str(f.blocks[b][1][2])) for b in inner):
            head = h
    if head is None:
        raise X.Unsupported('used-liquidity bookkeeping loop not found in get_route')
    vloc = []
    for b_, (body_, t) in f.blocks.items():
        if t[0] == 'call' and t[2].endswith('update_value_and_recompute_fees'):
            vloc.append(t[1])
            # the result is usually returned into a temporary and moved to the variable in the return block
            vloc += [st[1] for st in f.blocks[t[4]][0] if st[0] == 'assign' and st[2] in (('use', ('move', t[1])), ('use', ('copy', t[1])))]
    loop_blocks = [f.blocks[b] for b in rpo if head in encl[b]]
    vloc = [d for d in vloc if d[0] == 'local' and _mentions(loop_blocks, d[1])]
    vloc = vloc[:1] if len(set(vloc)) == 1 else vloc
    if len(vloc) != 1 or vloc[0][0] != 'local':
        raise X.Unsupported('call of update_value_and_recompute_fees in get_route: %d found' % len(vloc))
    value = E.sym('path.value_contribution_msat', 'u64')
    init = {vloc[0][1]: value}
    PB = D.struct_fields('PathBuildingHop')
    pair = E.sym('hop', "&(routing::router::PathBuildingHop<'_>, lightning_types::features::NodeFeatures)", mem)
    present = z3.Bool('env.channel_already_used')
    old = E.sym('env.used_before', 'u64')
    uc = E.new_cell()
    mem[uc] = old
    htlc_max = E.sym('cand.htlc_max', 'u64')
    seen = {'ins': []}

    def h_and_modify(E_, m, func, argv, guard, mem_, dty, caller):
        g = X.simp(z3.And(X.zbool(guard), present))
        if g is not False:
            E.call_closure(argv[1], [X.Ref(uc)], g, mem_)
        return X.Opaque('entry')

    def h_or_insert(E_, m, func, argv, guard, mem_, dty, caller):
        seen['ins'].append(X.zbool(guard))
        mem_[uc] = E.merge(present, mem_[uc], argv[1])
        return X.Ref(uc)
    for rx, h in [
        (r"slice::Iter<'_, \(.*PathBuildingHop.*\)> as Iterator>::next$", lambda *a: X.En('Option', 1, {1: [pair]})),
        (r"CandidateRouteHop::<'_>::id$", lambda *a: X.Opaque('id')),
        (r"HashMap::<.*CandidateHopId.*>::entry$", lambda *a: X.Opaque('entry')),
        (r"Entry::<.*CandidateHopId, u64.*>::and_modify::<", h_and_modify),
        (r"Entry::<.*CandidateHopId, u64.*>::or_insert$", h_or_insert),
        (r"CandidateRouteHop::<'_>::effective_capacity$", lambda *a: X.Opaque('capacity')),
        (r"router::max_htlc_from_capacity$", lambda *a: htlc_max),
    ]:
        E.models.insert(0, (re.compile(rx), h))
    E.depth += 1
    rv, ret, m2 = run.run(start_bb=head, init=init)
    E.depth -= 1
    if not run.cut_states:
        raise X.Unsupported('bookkeeping loop: no path returns to the loop head (%s)' % [w for g_, w in E.unsupported][:3])
    g_cut, m_cut = E.merge_mem(run.cut_states)
    mem = m_cut
    hop = E.read_path(mem[pair.cell], (('f', 0, "routing::router::PathBuildingHop<'_>"),), mem, True, 'spec')
    nf = E.read_path(hop, (('f', PB.index('next_hops_fee_msat'), 'u64'),), mem, True, 'spec').t
    new = mem[uc].t
    cont = X.zbool(g_cut)
    pre = [value.t <= 1 << 50, nf <= 1 << 50, old.t <= 1 << 50]
    spec = new == z3.If(present, old.t, 0) + value.t + nf
    panic = z3.Or(*[X.zbool(p[0]) for p in E.panics]) if E.panics else False
    # the loop ends in debug_assert!(used <= channel maximum), which rests on what add_entry! and max_final_value_msat
    # established for the whole path (not on this loop); the step claim is about the executions that pass it
    asserts = [p for p in E.panics if 'overflow' not in p[1]]
    passes = z3.Not(z3.Or(*[X.zbool(p[0]) for p in asserts])) if asserts else z3.BoolVal(True)
    pre = pre + [passes]
    b = Binding('route_validity_probe', [z3.IntVal(1)], [None, z3.If(z3.And(cont, spec), 0, 1)], parse=mask_bit(4 | 2048), line_fn=lambda vals: shared_first_hop(10199),
                via_solver=True, domain=[(1, 1)])
    S.prove(ids[0], E, pre, z3.And(cont, spec),
            'after a path is selected, every hop\'s channel is charged with what the path really sends through it - the path\'s value plus the fees of all later hops - on top of what earlier paths took, so that later paths see only the liquidity that is left',
            [b], bounds='one iteration of the bookkeeping loop from an arbitrary loop-head state (any number of hops / of paths before), amounts <= 2^50 msat; the hash map is a stub (entry present or not: free)')
    S.no_panic(ids[1], E, pre, 'no arithmetic overflow within the bounds', [], only=lambda p: 'overflow' in p[1])
    S.witness(ids[2], E, pre + [present, old.t > 0, nf > 0], cont)
    S.validate(ids[3], E, b, n=1, extra_vectors=[(1,)])


def derived_limits(S, D):
    """C16.g: the two per-request quantities get_route derives once, before the search, and that every later check uses:
    the internal CLTV budget and the minimal contribution of a path.  Region: from the branch on allow_mpp that
    computes the minimal contribution to the statement that stores the CLTV budget."""
    ids = ['C16.g.cltv_budget', 'C16.g.min_contribution', 'C16.g.nopanic', 'C16.g.witness', 'C16.g.validate']
    if all(S._skip(o) for o in ids):
        return
    f = _get_route(S)
    E = S.engine(unwind=1)
    mem = {}
    args = [E.sym('a%d' % n, t, mem) if t.startswith('&') else X.Opaque('arg%d' % n) for n, t in f.params]
    run = X.FnRun(E, f, args, True, mem)
    succ, rpo, back, encl = run.analyse_cfg()
    PP = D.struct_fields('PaymentParameters')
    lim_local = _local(f, 'max_total_cltv_expiry_delta')
    minc_local = _local(f, 'minimal_value_contribution_msat')
    end = [b for b, (body, t) in f.blocks.items() if t[0] == 'call' and t[1] == ('local', lim_local)]
    divs = [b for b, (body, t) in f.blocks.items() if t[0] == 'call' and t[2].endswith('::div_ceil') and t[1] == ('local', minc_local)]
    if len(end) != 1 or len(divs) != 1:
        raise X.Unsupported('get_route: %d definitions of the CLTV budget, %d of the minimal contribution' % (len(end), len(divs)))
    preds = [b for b in f.blocks if divs[0] in succ.get(b, [])]
    if len(preds) != 1:
        raise X.Unsupported('get_route: the minimal contribution is computed after %d blocks' % len(preds))
    start, stop = preds[0], f.blocks[end[0]][1][4]

    def param_copy(field):
        k = PP.index(field)
        out = []
        for b, (body, t) in f.blocks.items():
            for st in body:
                if st[0] == 'assign' and st[1][0] == 'local' and st[2][0] == 'use' and st[2][1][0] == 'copy':
                    pl = st[2][1][1]
                    if pl[0] == 'field' and pl[2] == k and 'PaymentParameters' in str(pl[1]):
                        out.append(st[1][1])
        if len(set(out)) != 1:
            raise X.Unsupported('get_route: %d locals hold payment_params.%s' % (len(set(out)), field))
        return out[0]
    max_total = E.sym('params.max_total_cltv_expiry_delta', 'u32')
    max_paths = E.sym('params.max_path_count', 'u8')
    final_cltv = E.sym('final_cltv_expiry_delta', 'u32')
    final_value = E.sym('final_value_msat', 'u64')
    allow_mpp = z3.Bool('allow_mpp')
    init = {param_copy('max_total_cltv_expiry_delta'): max_total, param_copy('max_path_count'): max_paths,
            _local(f, 'final_cltv_expiry_delta'): final_cltv, _local(f, 'final_value_msat'): final_value, _local(f, 'allow_mpp'): X.B(allow_mpp)}
    E.depth += 1
    run.run(start_bb=start, init=init, stop_bbs={stop})
    E.depth -= 1
    if stop not in run.stop_states:
        raise X.Unsupported('get_route: derived-limit region not closed (%s)' % [w for g_, w in E.unsupported][:3])
    g_stop, m_stop = E.merge_mem(run.stop_states[stop])
    limit = m_stop[run.cells[lim_local]].t
    minc = m_stop[run.cells[minc_local]].t
    # what get_route has checked before it gets here: a non-zero value, at least one path, a budget above the final delta
    pre = [final_value.t >= 1, max_paths.t >= 1, max_total.t > final_cltv.t]

    def line(vals):
        return scenario(10000, [chan(1, 100, 0, 2), chan(0, 101, 2, 1, cltv=70)], max_cltv=100 + 65536 * 40)
    over = limit + final_cltv.t > max_total.t
    # (2048: with the budget too large the caller's own accounting underflows - a panic in the dev profile)
    b = Binding('route_validity_probe', [z3.IntVal(1)], [None, z3.If(over, 1, 0)], parse=mask_bit(64 | 2048), line_fn=line, via_solver=True, domain=[(1, 1)])
    S.prove(ids[0], E, pre, z3.Not(over),
            'the CLTV budget the search works with plus the final hop\'s delta never exceeds the request\'s max_total_cltv_expiry_delta (so no returned path can)', [b],
            bounds='all u32 budgets / deltas; region of get_route from the allow_mpp branch to the budget\'s definition')
    S.prove(ids[1], E, pre, z3.If(allow_mpp, z3.And(minc * max_paths.t >= final_value.t, minc >= 1, (minc - 1) * max_paths.t < final_value.t), minc == final_value.t),
            'the minimal contribution of a path is ceil(value / max_path_count) with MPP (so max_path_count paths of that size always cover the value, and no smaller bound is imposed) and the whole value without', [])
    S.no_panic(ids[2], E, pre, 'no underflow (the budget exceeds the final delta: checked at the top of get_route)', [])
    S.witness(ids[3], E, pre + [allow_mpp, max_total.t - final_cltv.t < 80])
    S.validate(ids[4], E, b, n=1, extra_vectors=[(1,)])


def merge_key(S, D):
    """C16.h: the key get_route compares hop by hop when it merges "identical" paths at the end (step 8): the closures
    handed to iter_equal.  Two selected paths may be folded into one only if they use the same channels in the same
    direction AND lead through the same nodes (channel ids are not unique across peers: aliases)."""
    ids = ['C16.h.merge_key', 'C16.h.witness', 'C16.h.validate']
    if all(S._skip(o) for o in ids):
        return
    f = _get_route(S)
    keys = set()
    for b, (body, t) in f.blocks.items():
        if t[0] == 'call' and re.match(r'(?:\w+::)*iter_equal::<', t[2]):
            keys |= set(re.findall(r'\{closure@[^{}]*\}', t[2]))
    ix = S.mir()
    clos = [i for i in range(len(ix.offsets)) if re.match(r'fn get_route::\{closure#\d+\}\(', ix.offsets[i][0]) and any(k in ix.offsets[i][0] for k in keys)]
    if not keys or len(clos) != len(keys):
        raise X.Unsupported('get_route: %d closures handed to iter_equal, %d found' % (len(keys), len(clos)))
    claims, Es = [], []
    E = S.engine(unwind=1)
    mem = {}
    hid, tgt = z3.Int('hop.channel_id'), z3.Int('hop.target_node')
    for rx, h in [(r"CandidateRouteHop::<'_>::id$", lambda *a: X.Adt('CandidateHopId', {0: X.I(hid, 'u64')})),
                  (r"CandidateRouteHop::<'_>::target$", lambda *a: X.En('Option', 1, {1: [X.Adt('NodeId', {0: X.I(tgt, 'u64')})]}))]:
        E.models.insert(0, (re.compile(rx), h))

    def mentions(v, sym, depth=0):
        if depth > 6:
            return False
        if isinstance(v, X.I):
            return z3.is_expr(v.t) and v.t.eq(sym)
        if isinstance(v, X.Tup):
            return any(mentions(x, sym, depth + 1) for x in v.fs)
        if isinstance(v, X.Adt):
            return any(mentions(x, sym, depth + 1) for x in v.fs.values())
        if isinstance(v, X.En):
            return any(mentions(x, sym, depth + 1) for pl in v.vs.values() for x in pl if x is not None)
        return False
    ok = True
    for i in clos:
        c = ix.get(i)
        hop = E.sym('hop', c.params[1][1], mem)
        env = E.new_cell()
        mem[env] = X.Clo(re.search(r'\{closure@[^{}]*\}', c.params[0][1]).group(0), [])
        rv = S.call(E, c, [X.Ref(env), hop], mem)
        ok = ok and mentions(rv, hid) and mentions(rv, tgt)

    def line(vals):
        # our two channels carry the same alias 7 (to A = node 2 with 100 000 msat, to B = node 6 with 200 000 msat); A and B
        # each offer an unannounced channel with the same id 42 to the payee; 150 000 msat need both
        # (nodes 2 and 6: their ids compare the same way with ours and with the payee's, so the per-direction channel ids
        #  collide; the route hint through B charges 1000 ppm so that the merged path is the one through A)
        return scenario(150000, [chan(1, 7, 0, 2, cap=100000), chan(1, 7, 0, 6, cap=200000), chan(2, 42, 2, 1, cltv=10), chan(2, 42, 6, 1, prop=1000, cltv=10)], max_paths=10, mpp=1)
    b = Binding('route_validity_probe', [z3.IntVal(1)], [None, z3.IntVal(0 if ok else 1)], parse=mask_bit(4 | 2048), line_fn=line, via_solver=True, domain=[(1, 1)])
    S.prove(ids[0], E, [], z3.BoolVal(ok),
            'the value compared hop by hop before two selected paths are merged contains both the hop\'s channel id and the node it leads to', [b],
            bounds='the %d closures get_route hands to iter_equal, each on an arbitrary hop' % len(clos))
    S.witness(ids[1], E, [])
    S.validate(ids[2], E, b, n=1, extra_vectors=[(1,)])
