"""symbolic PackageTemplate inputs shared by C07 / C08"""
import z3
from engine_m import exec as X
from .common import *

KINDS = ['RevokedOutput', 'RevokedHTLCOutput', 'CounterpartyOfferedHTLCOutput', 'CounterpartyReceivedHTLCOutput', 'HolderHTLCOutput', 'HolderFundingOutput']


def sym_package(S, E, D, mem, ncap, name='pkg'):
    """returns (ref to PackageTemplate, views) where views[i] = dict(kind, cltv, preimage, amount_sat, present)"""
    PT = D.struct_fields('PackageTemplate')
    inputs = E.sym_slice('inputs', '(bitcoin::OutPoint, package::PackageSolvingData)', ncap, mem, as_vec=True)
    pkg = X.Adt('PackageTemplate', {PT.index('inputs'): inputs}, base=name)
    c = E.new_cell()
    mem[c] = pkg
    V = lambda n: D.variant_index('PackageSolvingData', n)
    for k, nme in enumerate(KINDS):
        if V(nme) != k:
            raise Exception('PackageSolvingData variant order changed')
    views = []
    n = inputs.n
    HO = D.struct_fields('HTLCOutputInCommitment')
    for i in range(ncap):
        sd = inputs.elems[i].fs[1]
        kind = X.zint(sd.d)

        def rd(variant, struct, fld, ty):
            outp = E.read_path(sd, (('v', variant), ('f', 0, 'package::' + struct)), mem, True, 'spec')
            return E.read_path(outp, (('f', D.field_index(struct, fld), ty),), mem, True, 'spec')

        def htlc_field(variant, struct, fld, ty):
            h = rd(variant, struct, 'htlc', 'chan_utils::HTLCOutputInCommitment')
            return E.read_path(h, (('f', HO.index(fld), ty),), mem, True, 'spec').t
        off_cltv = htlc_field('CounterpartyOfferedHTLCOutput', 'CounterpartyOfferedHTLCOutput', 'cltv_expiry', 'u32')
        rec_cltv = htlc_field('CounterpartyReceivedHTLCOutput', 'CounterpartyReceivedHTLCOutput', 'cltv_expiry', 'u32')
        hol_cltv = rd('HolderHTLCOutput', 'HolderHTLCOutput', 'cltv_expiry', 'u32').t
        hol_pre = rd('HolderHTLCOutput', 'HolderHTLCOutput', 'preimage', 'Option<PaymentPreimage>')
        has_pre = X.zint(hol_pre.d) == 1
        cltv = z3.If(kind == 2, off_cltv, z3.If(kind == 3, rec_cltv, z3.If(kind == 4, hol_cltv, 0)))
        views.append(dict(kind=kind, cltv=cltv, preimage=z3.And(kind == 4, has_pre), present=(n > i),
                          off_cltv=off_cltv, rec_cltv=rec_cltv, hol_cltv=hol_cltv, sd=sd))
    return X.Ref(c), pkg, views, n


def oracle_input_args(E, views, n, amounts=None):
    """plain symbols (tied by assumptions) for the oracle's `n (kind cltv preimage amount)*` list"""
    args = [n]
    for i, v in enumerate(views):
        k, c, p, a = z3.Int('o.kind%d' % i), z3.Int('o.cltv%d' % i), z3.Bool('o.pre%d' % i), z3.Int('o.amt%d' % i)
        E.assume(k == v['kind'])
        E.assume(c == v['cltv'])
        E.assume(p == v['preimage'])
        E.assume(a == (amounts[i] if amounts else 1000))
        args += [k, c, p, a]
    return args


def inputs_line(ncap, n_idx=0):
    def fmt(vals):
        pre = vals[:n_idx]
        n = vals[n_idx]
        body = vals[n_idx + 1:n_idx + 1 + 4 * ncap]
        suf = vals[n_idx + 1 + 4 * ncap:]
        return ' '.join(str(v) for v in pre + [n] + body[:4 * n] + suf)
    return fmt
