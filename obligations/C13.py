"""C13 - peer messages: engine K harnesses (harness/src/c13.rs) plus an engine M obligation on the
address-descriptor length arithmetic used by node_announcement encoding / decoding"""
import re
import z3
from engine_m import exec as X
from engine_m.session import Binding
from engine_k import runner as K
from .common import *

EVIDENCE = dict(assumptions=['kernel only: key-free peer messages (no secp256k1 PublicKey/Signature under Kani); inputs bounded as stated per harness; onion packets, large vectors and wire::read are outside the claim', 'Kani model: bitcoin-io io::Error payload compiled out under cfg(kani)', 'SocketAddress::len: hostname length is an arbitrary u8 (Hostname::len abstracted)'])


def run(S):
    D = S.decls()
    socket_address_len(S, D)
    node_announcement_addresses(S, D, step=False)
    node_announcement_addresses(S, D, step=True)
    wire_dispatch(S, D)
    K.run_property(S, 'C13')


def socket_address_len(S, D):
    E = S.engine()
    mem = {}
    f = S.fn('len', first_param='SocketAddress')
    hl = E.sym('hostname_len', 'u8')
    E.models.insert(0, (re.compile(r'Hostname::len$'), lambda *a: hl))
    addr = E.sym('addr', f.params[0][1], mem)
    rv = S.call(E, f, [addr], mem)
    kind = X.zint(mem[addr.cell].d)
    V = lambda n: D.variant_index('SocketAddress', n)
    ok_ = z3.Int('o.kind')
    E.assume(ok_ == z3.If(kind == V('TcpIpV4'), 0, z3.If(kind == V('TcpIpV6'), 1, z3.If(kind == V('OnionV2'), 2, z3.If(kind == V('OnionV3'), 3, 4)))))
    b = Binding('socket_address_len', [ok_, hl.t], [rv.t], panic=z3.Or(*[X.zbool(p[0]) for p in E.panics]) if E.panics else False)
    spec = z3.If(kind == V('TcpIpV4'), 6, z3.If(kind == V('TcpIpV6'), 18, z3.If(kind == V('OnionV2'), 12, z3.If(kind == V('OnionV3'), 37, hl.t + 3))))
    S.prove('C13.m.address_len', E, [], z3.And(rv.t == spec, rv.t <= 258),
            'the byte length of every address descriptor (as used for the node_announcement addrlen field) is exact: 6 / 18 / 12 / 37, and hostname length + 3 for DNS hostnames; never above SocketAddress::MAX_LEN',
            [b], bounds='all five address kinds, all hostname lengths 0..=255')
    S.no_panic('C13.m.address_len_nopanic', E, [], 'no arithmetic overflow for any hostname length (253..=255 included)', [b])


# ---------------------------------------------------------------------------------------------
# node_announcement address section: UnsignedNodeAnnouncement::read_from_fixed_length_buffer
# ---------------------------------------------------------------------------------------------
FIXED = 76      # flen(2, empty feature vector) timestamp(4) node_id(33) rgb(3) alias(32) addrlen(2)


def _prefix_descs(r):
    """hostname descriptors (4..259 bytes each) whose encoded lengths sum to r (r == 0 or r >= 4)"""
    if r == 0:
        return []
    q, rem = divmod(r, 259)
    sizes = [259] * q
    if rem >= 4:
        sizes.append(rem)
    elif rem:
        sizes.pop()
        sizes += [255 + rem, 4]
    return [(4, s_ - 4) for s_ in sizes]


def node_announcement_addresses(S, D, step):
    """The reader is an environment stub: a source of L bytes of which `consumed` have been read;
    every leaf read (`u16`, `NodeId`, ..., one address descriptor, `read_exact`, `read_to_end`)
    succeeds iff enough bytes are left and then advances `consumed`. One address descriptor read is
    abstracted to its kind and hostname length (its byte length is `SocketAddress::len`, proven
    exact in C13.m.address_len). The decoder's own control flow and arithmetic are the real MIR.

    step=False: the whole function on a source holding at most U descriptors followed by zero padding.
    step=True : ONE iteration of the address loop from an arbitrary loop-head state satisfying the
                loop invariant (any number of addresses already read), then either back to the loop
                head (invariant re-established) or on to the function's return."""
    tag = 'C13.m.nodeann_step' if step else 'C13.m.nodeann'
    if S._skip(tag + '.accounting') and S._skip(tag + '.nopanic') and S._skip(tag + '.witness') and S._skip(tag + '.invariant'):
        return
    U = 1 if step else (2 if S.tier == 'quick' else 4)
    E = S.engine(unwind=U + 2)
    mem = {}
    f = S.fn('read_from_fixed_length_buffer', contains='Result<UnsignedNodeAnnouncement,')
    V = lambda n: D.variant_index('SocketAddress', n)
    DE = lambda n: D.variant_index('DecodeError', n)
    L = z3.Int('src.len')                    # bytes the source holds
    st = {'consumed': None, 'k': 0, 'pushes': [], 'descs': []}
    addr_len = E.sym('addr_len', 'u16')

    def speclen(kind, hl):
        return z3.If(kind == 0, 6, z3.If(kind == 1, 18, z3.If(kind == 2, 12, z3.If(kind == 3, 37, hl + 3))))

    def h_addr(E_, m, func, argv, guard, mem_, dest_ty, caller):
        k = st['k']
        st['k'] += 1
        kind, hl = z3.Int('d%d.kind' % k), z3.Int('d%d.hl' % k)
        if k < U:
            E.assume(z3.And(kind >= 0, kind <= 6, hl >= 0, hl <= 255, z3.Implies(kind == 6, hl >= 1)))   # an empty hostname is valid
        else:
            E.assume(z3.And(kind == 5, hl == 0))         # zero padding: unknown descriptor type 0
        sl = speclen(kind, hl)
        need = z3.If(kind == 5, 1, z3.If(kind == 6, 2 + hl, 1 + sl))
        enough = st['consumed'] + need <= L
        ok_outer = z3.And(enough, kind != 6)
        addr = E.sym('d%d.addr' % k, 'ln::msgs::SocketAddress', mem_)
        E.assume(X.zint(addr.d) == z3.If(kind == 0, V('TcpIpV4'), z3.If(kind == 1, V('TcpIpV6'), z3.If(kind == 2, V('OnionV2'), z3.If(kind == 3, V('OnionV3'), V('Hostname'))))))
        st['descs'].append((kind, hl, sl, addr))
        inner = X.En('Result', z3.If(kind <= 4, 0, 1), {0: [addr], 1: [X.I(9, 'u8')]})
        err = X.En('DecodeError', z3.If(enough, DE('InvalidValue'), DE('ShortRead')), {})
        st['consumed'] = st['consumed'] + z3.If(z3.And(X.zbool(guard), ok_outer), need, 0)
        return X.En('Result', z3.If(ok_outer, 0, 1), {0: [inner], 1: [err]})

    def h_addr_len(E_, m, func, argv, guard, mem_, dest_ty, caller):
        a = mem_[argv[0].cell]
        for kind, hl, sl, addr in st['descs']:
            if addr is a or getattr(a, 'base', None) == addr.base:
                return X.I(sl, 'u16')
        return NotImplemented

    def h_read_ok(E_, m, func, argv, guard, mem_, dest_ty, caller):
        ty = m.group(1)
        if ty == 'u16':
            return X.En('Result', 0, {0: [addr_len]})
        return X.En('Result', 0, {0: [E.sym('fixed!%d' % len(st['descs']) + re.sub(r'\W', '', ty)[:12], ty, mem_)]})

    def seq_len(v):
        if isinstance(v, X.Seq):
            return v.n
        if isinstance(v, X.Tup):
            return len(v.fs)
        raise X.Unsupported('read_exact into %r' % (v,))

    def h_read_exact(E_, m, func, argv, guard, mem_, dest_ty, caller):
        n = seq_len(mem_[argv[1].cell])
        ok = st['consumed'] + n <= L
        st['consumed'] = st['consumed'] + z3.If(z3.And(X.zbool(guard), ok), n, 0)
        return X.En('Result', z3.If(ok, 0, 1), {0: [X.UNIT], 1: [X.Opaque('io::Error(UnexpectedEof)')]})

    def h_from_elem(E_, m, func, argv, guard, mem_, dest_ty, caller):
        return X.Seq([], argv[1].t, 'u8')

    def h_range_from(E_, m, func, argv, guard, mem_, dest_ty, caller):
        v = mem_[argv[0].cell]
        start = E.read_path(argv[1], (('f', 0, 'usize'),), mem_, guard, 'spec').t
        E.panic(z3.And(X.zbool(guard), start > v.n), 'range start index out of range for slice', caller.fn.name)
        c = E.new_cell()
        mem_[c] = X.Seq([], v.n - start, 'u8')
        return X.Ref(c)

    def h_index_usize(E_, m, func, argv, guard, mem_, dest_ty, caller):
        v = mem_[argv[0].cell]
        E.panic(z3.And(X.zbool(guard), argv[1].t >= v.n), 'index out of bounds', caller.fn.name)
        c = E.new_cell()
        mem_[c] = X.I(0, 'u8')
        return X.Ref(c)

    def h_push(E_, m, func, argv, guard, mem_, dest_ty, caller):
        v = mem_[argv[0].cell]
        if v.ety != 'u8':
            st['pushes'].append((X.zbool(guard), argv[1]))
        mem_[argv[0].cell] = X.Seq([], v.n + 1, v.ety)
        return X.UNIT

    def h_vec_new(E_, m, func, argv, guard, mem_, dest_ty, caller):
        return X.Seq([], 0, 'u8' if '<u8>' in func else 'ln::msgs::SocketAddress')

    def h_read_to_end(E_, m, func, argv, guard, mem_, dest_ty, caller):
        n = L - st['consumed']
        st['consumed'] = z3.If(X.zbool(guard), L, st['consumed'])
        return X.En('Result', 0, {0: [X.Seq([], n, 'u8')]})

    for rx, h in [
        (r'<(?:std::result::)?Result<(?:ln::msgs::)?SocketAddress, u8> as (?:util::ser::)?Readable>::read::<R>$', h_addr),
        (r'SocketAddress::len$', h_addr_len),
        (r'^<(.*) as (?:util::ser::)?Readable>::read::<R>$', h_read_ok),
        (r'^<R as (?:bitcoin::)?(?:bitcoin_io::)?Read>::read_exact$', h_read_exact),
        (r'vec::from_elem::<u8>$', h_from_elem),
        (r'Vec<u8> as IndexMut<(?:std::ops::)?RangeFrom<usize>>>::index_mut$', h_range_from),
        (r'Vec<u8> as IndexMut<usize>>::index_mut$', h_index_usize),
        (r'Vec::<.*>::push$', h_push),
        (r'Vec::<.*>::new$', h_vec_new),
        (r'read_to_end::<R>$', h_read_to_end),
        (r'Vec<u8> as Extend<&u8>>::extend::<', lambda *a: X.UNIT),
        # `?` on the reader's io::Error: the stub reader only fails with UnexpectedEof, which
        # `From<io::Error> for DecodeError` maps to ShortRead
        (r'FromResidual<.*Infallible, (?:bitcoin::)?(?:bitcoin_io::|io::)Error>>>::from_residual$',
         lambda *a: X.En('Result', 1, {1: [X.En('DecodeError', DE('ShortRead'), {})]})),
    ]:
        E.models.insert(0, (re.compile(rx), h))
    # the h_read_ok pattern must not shadow the address pattern
    E.models.sort(key=lambda t: 0 if 'SocketAddress, u8>' in t[0].pattern else 1)

    rc = E.new_cell()
    mem[rc] = X.Opaque('reader')
    E.assume(L < (1 << 40))
    if not step:
        E.assume(L >= FIXED)
        # the generic Ok stub does not count bytes: count the fixed part up front, minus what read_exact(rgb) adds
        st['consumed'] = z3.IntVal(FIXED - 3)
        rv = S.call(E, f, [X.Ref(rc)], mem)
        ret = S.ret_guard
        readpos0 = None
    else:
        run = X.FnRun(E, f, [X.Ref(rc)], True, mem)
        succ, rpo, back, encl = run.analyse_cfg()
        heads = sorted({h for (u, h) in back})
        if len(heads) != 1:
            raise X.Unsupported('expected exactly one loop in the node_announcement reader, found %s' % heads)
        readpos0 = E.sym('pre.addr_readpos', 'u16')
        n0 = z3.Int('pre.n_addresses')
        E.assume(z3.And(n0 >= 0, n0 <= 65535))
        # loop invariant at the head: the addresses read so far are exactly addr_readpos bytes, all of
        # them inside the advertised section and inside the source; no unknown descriptor seen yet
        E.assume(readpos0.t <= addr_len.t)
        E.assume(z3.Or(readpos0.t == 0, readpos0.t >= 4))        # sums of descriptor lengths (each >= 4)
        st['consumed'] = FIXED + readpos0.t
        E.assume(st['consumed'] <= L)
        loc = lambda name: int(f.debug[name].lstrip('_'))
        tys = f.locals
        init = {loc('addr_len'): addr_len, loc('addr_readpos'): readpos0, loc('excess'): X.B(False), loc('excess_byte'): X.I(0, 'u8'),
                loc('addresses'): X.Seq([], n0, 'ln::msgs::SocketAddress')}
        for nm in ('features', 'timestamp', 'node_id', 'rgb', 'alias'):
            init[loc(nm)] = E.sym('pre.' + nm, tys[loc(nm)], mem)
        E.depth += 1
        rv, ret, m2 = run.run(start_bb=heads[0], init=init)
        E.depth -= 1
        for k_, v_ in m2.items():
            mem[k_] = v_
        ret = X.zbool(ret)
        S.ret_guard = ret
    panic = z3.Or(*[X.zbool(p[0]) for p in E.panics]) if E.panics else False
    ok = z3.And(ret, X.zint(rv.d) == 0) if rv is not None else z3.BoolVal(False)
    msg = rv.vs[0][0]
    addrs = field(E, D, 'UnsignedNodeAnnouncement', 'addresses', msg, 'std::vec::Vec<ln::msgs::SocketAddress>', mem)
    exad = field(E, D, 'UnsignedNodeAnnouncement', 'excess_address_data', msg, 'std::vec::Vec<u8>', mem)
    ex_len, n_addr = exad.n, addrs.n
    descs = st['descs']
    pushed = 0
    for g, a in st['pushes']:
        for kind, hl, sl, addr in descs:
            if a is addr or getattr(a, 'base', None) == addr.base:
                pushed = pushed + z3.If(g, 1 + sl, 0)
    if not hasattr(rv.vs[1][0], 'd'):
        raise X.Unsupported('error payload not an enum: %r; unsupported: %s' % (rv.vs[1][0], [w for g, w in E.unsupported][:5]))
    errd = X.zint(rv.vs[1][0].d)
    code = z3.If(errd == DE('ShortRead'), 1, z3.If(errd == DE('BadLengthDescriptor'), 2, z3.If(errd == DE('InvalidValue'), 3, 9)))
    if not step:
        total = pushed + ex_len
        args = [addr_len.t, L - FIXED]
        for kind, hl, sl, addr in descs[:U]:
            args += [kind, hl]
        outs = [z3.If(ok, 1, 0), z3.If(ok, n_addr, code), z3.If(ok, ex_len, 0), z3.If(ok, total, 0)]
        b = Binding('node_announcement_addr_probe', args, outs, panic=panic,
                    domain=[(0, 600), (0, 700)] + [(0, 6), (0, 255)] * U, interesting=[4, 7, 13, 19, 38, 258, 259])
        S.prove(tag + '.accounting', E, [], z3.Implies(ok, total == addr_len.t),
                'an accepted node_announcement accounts for its address section exactly: the descriptor lengths of the addresses it returns plus the retained excess_address_data equal the advertised addrlen (no address overruns addrlen; re-encoding reproduces the addrlen field)',
                [b], bounds='empty feature vector, <= %d address descriptors of any kind (incl. unknown / invalid-hostname) then zero padding, any addrlen, any truncation point after the fixed part' % U)
        S.no_panic(tag + '.nopanic', E, [], 'decoding never panics on such input', [b])
        S.witness(tag + '.witness', E, [], z3.And(ok, n_addr == U, ex_len > 0))
        S.validate(tag + '.validate', E, b)
        return
    # ---- one loop step ----
    cut = run.cut_states
    if cut:
        cg, cm = E.merge_mem(cut)
        cg = X.zbool(cg)
        rp1 = cm[run.cells[loc('addr_readpos')]].t
        ex1 = X.zbool(cm[run.cells[loc('excess')]].t)
        n1 = cm[run.cells[loc('addresses')]].n
    else:
        cg, rp1, ex1, n1 = z3.BoolVal(False), 0, z3.BoolVal(False), 0
    kind, hl, sl, addr = descs[0]
    consumed1 = st['consumed']
    # native replay: a prefix of hostname descriptors of total length addr_readpos, then this descriptor;
    # on the continuing path the source is cut right after it (the decoder then leaves the loop)
    avail = z3.If(cg, FIXED + rp1, L) - FIXED
    fin_ok = z3.If(cg, addr_len.t <= rp1, ok)
    # (the second output, the number of addresses, depends on the replay's choice of prefix: not compared)
    outs = [z3.If(fin_ok, 1, 0), None, z3.If(cg, 0, z3.If(ok, ex_len, 0)),
            z3.If(cg, z3.If(fin_ok, rp1, 0), z3.If(ok, readpos0.t + pushed + ex_len, 0))]
    def line_fn(v):
        al, rp, av, k_, h_ = v
        return ' '.join(str(x) for x in [al, av] + [y for d_ in _prefix_descs(rp) for y in d_] + [k_, h_])
    b = Binding('node_announcement_addr_probe', [addr_len.t, readpos0.t, avail, kind, hl], outs, panic=panic, line_fn=line_fn)
    S.no_panic(tag + '.nopanic', E, [], 'one iteration of the address loop never panics (no u16 overflow in addr_readpos + 1 + len, however many addresses precede it and however long the source is)', [b])
    S.prove(tag + '.invariant', E, [], z3.Implies(cg, z3.And(rp1 <= addr_len.t, rp1 == readpos0.t + 1 + sl, z3.Not(ex1), n1 == n0 + 1, consumed1 == FIXED + rp1, consumed1 <= L)),
            'loop invariant preserved: an address is accepted only if it lies entirely inside the advertised section (addr_readpos stays <= addrlen and equals the bytes consumed)',
            [b], bounds='one loop iteration from an arbitrary invariant-satisfying state (any addr_readpos <= addrlen, any number of earlier addresses, source length < 2^40)')
    S.prove(tag + '.accounting', E, [], z3.Implies(ok, readpos0.t + pushed + ex_len == addr_len.t),
            'when the decoder leaves the loop and accepts, addresses + excess_address_data account for exactly addrlen bytes',
            [b], bounds='as above; exit through loop condition, unknown descriptor or end of section')
    S.witness(tag + '.witness', E, [], z3.And(cg, readpos0.t > 1000))
    S.witness(tag + '.witness_exit', E, [], z3.And(ok, ex_len > 0, readpos0.t > 1000))


# BOLT 1 / 2 / 7 (+ the extension messages LDK speaks) message type numbers -> (variant of wire::Message, struct read)
WIRE_TYPES = {
    1: 'Warning:WarningMessage', 2: 'Stfu', 7: 'PeerStorage', 9: 'PeerStorageRetrieval', 16: 'Init', 17: 'Error:ErrorMessage', 18: 'Ping', 19: 'Pong',
    32: 'OpenChannel', 33: 'AcceptChannel', 34: 'FundingCreated', 35: 'FundingSigned', 36: 'ChannelReady', 38: 'Shutdown', 39: 'ClosingSigned',
    40: 'ClosingComplete', 41: 'ClosingSig', 64: 'OpenChannelV2', 65: 'AcceptChannelV2', 66: 'TxAddInput', 67: 'TxAddOutput', 68: 'TxRemoveInput',
    69: 'TxRemoveOutput', 70: 'TxComplete', 71: 'TxSignatures', 72: 'TxInitRbf', 73: 'TxAckRbf', 74: 'TxAbort', 77: 'SpliceLocked', 80: 'SpliceInit',
    81: 'SpliceAck', 127: 'StartBatch', 128: 'UpdateAddHTLC', 130: 'UpdateFulfillHTLC', 131: 'UpdateFailHTLC', 132: 'CommitmentSigned', 133: 'RevokeAndACK',
    134: 'UpdateFee', 135: 'UpdateFailMalformedHTLC', 136: 'ChannelReestablish', 256: 'ChannelAnnouncement', 257: 'NodeAnnouncement', 258: 'ChannelUpdate',
    259: 'AnnouncementSignatures', 261: 'QueryShortChannelIds', 262: 'ReplyShortChannelIdsEnd', 263: 'QueryChannelRange', 264: 'ReplyChannelRange',
    265: 'GossipTimestampFilter', 513: 'OnionMessage'}


def wire_binding(claim):
    """replay (oracle wire_dispatch_battery): 24 key-free messages, each written with wire::write and read back through
    wire::read (the public framing of peer messages): the message read must report the type number written and
    re-encode to the same bytes. Output: number of bad messages."""
    c = claim if z3.is_expr(claim) else X.zbool(claim)
    return Binding('wire_dispatch_battery', [z3.IntVal(0)], [z3.If(c, 0, 1)], parse=lambda t: [0 if t[0] == '0' else 1], line_fn=lambda v: '0',
                   via_solver=True, domain=[(0, 0)], panic=False)


def wire_dispatch(S, D):
    """C13.w: `wire::do_read` - the dispatch from the 2-byte message type to the decoder. For every type number of
    BOLT 1/2/7 (and LDK's extension messages) the payload is read by that message's own decoder and comes back as the
    variant of `wire::Message` of that message; any other type goes to the custom reader and otherwise comes back as
    `Unknown(<that type>)`; a decoder's error is passed on. Whole function from its MIR, message type symbolic, every
    payload decoder a stub (Ok with a value tagged by the decoder's type, or an error)."""
    ids = ['C13.w.dispatch_by_type', 'C13.w.unknown_types', 'C13.w.nopanic', 'C13.w.witness']
    if all(S._skip(o) for o in ids):
        return
    f = S.fn('do_read', contains='fn do_read(_1: &mut R, _2: u16, _3: H)')
    E = S.engine(unwind=1)
    mem = {}
    reads = []
    DE = D.variant_index('DecodeError', 'InvalidValue')

    def h_read(E_, m, func, argv, guard, mem_, dty, caller):
        name = m.group(1).split('::')[-1]
        ok = z3.Bool('decode_ok.%s!%d' % (name, next(E.nfresh)))
        reads.append((X.zbool(guard), name, ok))
        return X.En('Result', z3.If(ok, 0, 1), {0: [X.Adt(name, {}, base='decoded.' + name)], 1: [X.En('DecodeError', DE, {})]})
    cust_ok, cust_some = z3.Bool('custom_ok'), z3.Bool('custom_some')
    for rx, h in [
        (r'^<(.*) as (?:util::ser::)?LengthReadable>::read_from_fixed_length_buffer::<R>$', h_read),
        (r'^<H as (?:\w+::)*CustomMessageReader>::read::<R>$', lambda *a: X.En('Result', z3.If(cust_ok, 0, 1), {0: [X.En('Option', z3.If(cust_some, 1, 0), {1: [X.Opaque('custom message')]})], 1: [X.En('DecodeError', DE, {})]})),
    ]:
        E.models.insert(0, (re.compile(rx), h))
    rcell = E.new_cell()
    mem[rcell] = X.Opaque('reader')
    ty = E.sym('message_type', 'u16')
    res = S.call(E, f, [X.Ref(rcell), ty, X.Opaque('custom reader')], mem)
    ret = S.ret_guard
    variants = D.enum_variants('Message', hint='wire')
    vidx = {v[0]: i for i, v in enumerate(variants)}
    r_ok = X.zint(res.d) == 0
    msg = res.vs[0][0]
    md = X.zint(msg.d)
    conj = []
    known = []
    for t, spec in sorted(WIRE_TYPES.items()):
        vname, sname = (spec.split(':') + [spec])[:2]
        if vname not in vidx:
            continue                    # cfg'd out of this build (simple_close)
        known.append(t)
        mine = [(g, ok) for g, n, ok in reads if n == sname]
        if len(mine) != 1:
            conj.append(z3.BoolVal(False))
            continue
        g, ok = mine[0]
        pl = msg.vs.get(vidx[vname])
        tagged = pl is not None and isinstance(pl[0], X.Adt) and pl[0].name == sname
        conj.append(z3.Implies(ty.t == t, z3.And(g, z3.BoolVal(bool(tagged)), r_ok == ok, z3.Implies(ok, md == vidx[vname]),
                                                 *[z3.Not(g2) for g2, n2, ok2 in reads if n2 != sname])))
    other = z3.And(*[ty.t != t for t in known])
    unk = msg.vs.get(vidx['Unknown'])
    S.prove(ids[0], E, [], z3.And(ret, *conj),
            'every BOLT message type number is decoded by that message\'s own decoder (and by no other) and comes back as the wire::Message variant of that message; a decoding error is passed on',
            [wire_binding(z3.And(*conj))], bounds='whole function, all u16 message types; %d type numbers in the table; payload decoders stubbed (free success)' % len(known))
    S.prove(ids[1], E, [other], z3.And(ret, *[z3.Not(g) for g, n, ok in reads], r_ok == cust_ok,
                                      z3.Implies(z3.And(cust_ok, cust_some), md == vidx['Custom']),
                                      z3.Implies(z3.And(cust_ok, z3.Not(cust_some)), z3.And(md == vidx['Unknown'], X.zint(unk[0].t) == ty.t))),
            'a type number outside the table reaches no built-in decoder: it is offered to the custom reader and otherwise reported as Unknown(<that type>)', [])
    S.no_panic(ids[2], E, [], 'the dispatch does not panic', [])
    S.witness(ids[3], E, [ty.t == 69], z3.And(r_ok, md == vidx['TxRemoveOutput']))
