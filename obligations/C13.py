"""C13 - engine K (Kani) harnesses, see harness/src/c13.rs and engine_k/harnesses.json"""
from engine_k import runner as K

EVIDENCE = dict(assumptions=['kernel only: key-free peer messages (no secp256k1 PublicKey/Signature under Kani); inputs bounded as stated per harness; onion packets, large vectors and wire::read are outside the claim', 'Kani model: bitcoin-io io::Error payload compiled out under cfg(kani)'])


def run(S):
    K.run_property(S, 'C13')
