"""C13 - peer messages: engine K harnesses (harness/src/c13.rs) plus an engine M obligation on the
address-descriptor length arithmetic used by node_announcement encoding / decoding"""
import re
import z3
from engine_m import exec as X
from engine_m.session import Binding
from engine_k import runner as K
from .common import *

EVIDENCE = dict(assumptions=['kernel only: key-free peer messages (no secp256k1 PublicKey/Signature under Kani); inputs bounded as stated per harness; onion packets, large vectors and wire::read are outside the claim', 'Kani model: bitcoin-io io::Error payload compiled out under cfg(kani)', 'SocketAddress::len: hostname length is an arbitrary u8 (Hostname::len abstracted)'])


def run(S):
    D = S.decls()
    socket_address_len(S, D)
    K.run_property(S, 'C13')


def socket_address_len(S, D):
    E = S.engine()
    mem = {}
    f = S.fn('len', first_param='SocketAddress')
    hl = E.sym('hostname_len', 'u8')
    E.models.insert(0, (re.compile(r'Hostname::len$'), lambda *a: hl))
    addr = E.sym('addr', f.params[0][1], mem)
    rv = S.call(E, f, [addr], mem)
    kind = X.zint(mem[addr.cell].d)
    V = lambda n: D.variant_index('SocketAddress', n)
    ok_ = z3.Int('o.kind')
    E.assume(ok_ == z3.If(kind == V('TcpIpV4'), 0, z3.If(kind == V('TcpIpV6'), 1, z3.If(kind == V('OnionV2'), 2, z3.If(kind == V('OnionV3'), 3, 4)))))
    b = Binding('socket_address_len', [ok_, hl.t], [rv.t], panic=z3.Or(*[X.zbool(p[0]) for p in E.panics]) if E.panics else False)
    spec = z3.If(kind == V('TcpIpV4'), 6, z3.If(kind == V('TcpIpV6'), 18, z3.If(kind == V('OnionV2'), 12, z3.If(kind == V('OnionV3'), 37, hl.t + 3))))
    S.prove('C13.m.address_len', E, [], z3.And(rv.t == spec, rv.t <= 258),
            'the byte length of every address descriptor (as used for the node_announcement addrlen field) is exact: 6 / 18 / 12 / 37, and hostname length + 3 for DNS hostnames; never above SocketAddress::MAX_LEN',
            [b], bounds='all five address kinds, all hostname lengths 0..=255')
    S.no_panic('C13.m.address_len_nopanic', E, [], 'no arithmetic overflow for any hostname length (253..=255 included)', [b])
