"""C12 - engine K (Kani) harnesses, see harness/src/c12.rs and engine_k/harnesses.json, plus an engine M obligation
that links a persisted object's hand-written TLV writer to its separately written reader (obligations/tlv_stream.py)"""
import re
import z3
from engine_m import exec as X
from engine_m.session import Binding
from engine_k import runner as K
from .common import *
from .tlv_stream import TlvStream, find_fn, roundtrip

EVIDENCE = dict(assumptions=['kernel only: codec primitives of util/ser.rs and the TLV-stream machinery of the real exported macros on a probe struct (Kani); the field wiring of the writers of ClaimableHTLC (write_claimable_htlc), ChannelConfig and ChannelUpdateInfo against their separately written readers over an abstract record stream - leaf codecs and byte lengths abstracted (engine M); every other large persisted object (manager, monitor, graph, scorer, sweeper) and behavioural equivalence after reload are outside the claim', 'Kani model: bitcoin-io io::Error payload compiled out under cfg(kani) (harness/patched/bitcoin-io); harness-local fixed-array Writer/Reader'])


def run(S):
    claimable_htlc(S, S.decls())
    channel_config(S, S.decls())
    channel_update_info(S, S.decls())
    K.run_property(S, 'C12')


def claimable_htlc(S, D):
    """C12.m: a ClaimableHTLC (persisted inside ChannelManager for every payment awaiting a claim) written by
    write_claimable_htlc reads back through <(ClaimableHTLC, u64) as Readable>::read with every field intact.
    The two sides keep separate TLV field lists; both macro expansions are executed from their MIR over the
    abstract record stream of tlv_stream.py."""
    ids = ('C12.m.claimable_htlc.roundtrip', 'C12.m.claimable_htlc.nopanic', 'C12.m.claimable_htlc.witness', 'C12.m.claimable_htlc.validate')
    if all(S._skip(o) for o in ids):
        return
    E = S.engine(unwind=14)
    mem = {}
    fw = S.fn('write_claimable_htlc')
    ix = S.mir()
    c = [i for i in range(len(ix.offsets)) if re.search(r'::read\(_1: &mut R\) -> (?:std::result::)?Result<\((?:\w+::)*ClaimableHTLC, u64\)', ix.offsets[i][0])]
    if len(c) != 1:
        raise X.Unsupported('reader of (ClaimableHTLC, u64): %d candidates' % len(c))
    fr = ix.get(c[0])
    T = TlvStream(E, D)
    T.install_writer()
    htlc = E.sym('htlc', '&ln::channelmanager::ClaimableHTLC', mem)
    total = E.sym('total', 'u64')
    wcell = E.new_cell()
    mem[wcell] = X.Opaque('writer')
    wr = S.call(E, fw, [htlc, total, X.Ref(wcell)], mem)
    w_ok = z3.And(S.ret_guard, X.zint(wr.d) == 0)
    recs = T.finish_writer()
    T.install_reader()
    rcell = E.new_cell()
    mem[rcell] = X.Opaque('reader')
    rr = S.call(E, fr, [X.Ref(rcell)], mem)
    r_ok = z3.And(S.ret_guard, X.zint(rr.d) == 0)
    back, back_total = rr.vs[0][0].fs[0], rr.vs[0][0].fs[1]
    orig = mem[htlc.cell]
    MP, CH = D.struct_fields('MppPart'), D.struct_fields('ClaimableHTLC')
    rd = lambda v, path: E.read_path(v, path, mem, True, 'spec')

    def part(v, nm, ty):
        mp = rd(v, (('f', CH.index('mpp_part'), 'ln::channelmanager::MppPart'),))
        return rd(mp, (('f', MP.index(nm), ty),))

    def ident(v):
        """identity of an abstract (non-integer) leaf value"""
        if getattr(v, 'alt', None) is not None:
            c_, a, b = v.alt
            return z3.If(X.zbool(c_), ident(a), ident(b))
        if getattr(v, 'base', None) is None:
            return z3.Int('ident!unknown%d' % next(E.nfresh))
        return z3.Int('ident.' + v.base)

    def opt_u64(o):
        return X.zint(o.d) == 1, E.en_payload(o, 'Some', 1, 0, 'u64', mem, 'spec').t
    both = []
    flat_in, flat_out = [], []
    for nm, ty in (('value', 'u64'), ('sender_intended_value', 'u64'), ('cltv_expiry', 'u32')):
        a, b = part(orig, nm, ty).t, part(back, nm, ty).t
        both.append(a == b)
        flat_in.append(a)
        flat_out.append(b)
    both.append(total.t == back_total.t)
    o_trv, b_trv = opt_u64(part(orig, 'total_value_received', 'Option<u64>')), opt_u64(part(back, 'total_value_received', 'Option<u64>'))
    o_sk = opt_u64(rd(orig, (('f', CH.index('counterparty_skimmed_fee_msat'), 'Option<u64>'),)))
    b_sk = opt_u64(rd(back, (('f', CH.index('counterparty_skimmed_fee_msat'), 'Option<u64>'),)))
    for (os_, ov), (bs_, bv) in ((o_trv, b_trv), (o_sk, b_sk)):
        both.append(z3.And(os_ == bs_, z3.Implies(os_, ov == bv)))
    both.append(ident(part(orig, 'prev_hop', 'ln::channelmanager::HTLCPreviousHopData')) == ident(part(back, 'prev_hop', 'ln::channelmanager::HTLCPreviousHopData')))
    o_pl = rd(orig, (('f', CH.index('onion_payload'), 'ln::channelmanager::OnionPayload'),))
    b_pl = rd(back, (('f', CH.index('onion_payload'), 'ln::channelmanager::OnionPayload'),))
    SP = D.variant_index('OnionPayload', 'Spontaneous')
    o_key, b_key = X.zint(o_pl.d) == SP, X.zint(b_pl.d) == SP
    o_data = rd(o_pl, (('v', 'Invoice'), ('f', 0, 'Option<ln::msgs::FinalOnionHopData>')))
    b_data = rd(b_pl, (('v', 'Invoice'), ('f', 0, 'Option<ln::msgs::FinalOnionHopData>')))
    o_has, b_has = z3.And(z3.Not(o_key), X.zint(o_data.d) == 1), z3.And(z3.Not(b_key), X.zint(b_data.d) == 1)
    both += [o_key == b_key, o_has == b_has]
    both.append(z3.Implies(o_key, ident(rd(o_pl, (('v', 'Spontaneous'), ('f', 0, 'types::payment::PaymentPreimage')))) == ident(rd(b_pl, (('v', 'Spontaneous'), ('f', 0, 'types::payment::PaymentPreimage'))))))
    both.append(z3.Implies(o_has, ident(rd(o_data, (('v', 'Some'), ('f', 0, 'ln::msgs::FinalOnionHopData')))) == ident(rd(b_data, (('v', 'Some'), ('f', 0, 'ln::msgs::FinalOnionHopData'))))))
    panic = z3.Or(*[X.zbool(p[0]) for p in E.panics]) if E.panics else False
    v_, siv, cl = flat_in
    args = [v_, siv, total.t, z3.If(o_trv[0], 1, 0), z3.If(o_trv[0], o_trv[1], 0), cl, z3.If(o_sk[0], 1, 0), z3.If(o_sk[0], o_sk[1], 0), z3.If(o_key, 1, 0), z3.If(o_has, 1, 0)]
    outs = [z3.If(r_ok, 1, 0), flat_out[0], flat_out[1], back_total.t, z3.If(b_trv[0], 1, 0), z3.If(b_trv[0], b_trv[1], 0), flat_out[2],
            z3.If(b_sk[0], 1, 0), z3.If(b_sk[0], b_sk[1], 0), z3.If(b_key, 1, 0), z3.If(b_has, 1, 0)]
    outs = [outs[0]] + [z3.If(r_ok, o, 0) for o in outs[1:]]
    pre = [z3.Implies(o_has, True)]
    b = Binding('claimable_htlc_roundtrip', args, outs, panic=panic,
                domain=[(0, U64), (0, U64), (0, U64), (0, 1), (0, U64), (0, U32), (0, 1), (0, U64), (0, 1), (0, 1)])
    S.prove(ids[0], E, pre, z3.And(w_ok, r_ok, *both),
            'a ClaimableHTLC written by write_claimable_htlc reads back with every field intact (amounts, sender-intended amount, CLTV expiry, total, received total, skimmed fee, previous hop, keysend preimage / legacy payment data): the writer\'s and the reader\'s separately maintained TLV field lists agree',
            [b], bounds='abstract record stream: %d records (%s); leaf codecs and byte lengths abstracted; all field values' % (len(recs), ', '.join(str(r['t']) for r in recs)))
    S.no_panic(ids[1], E, pre, 'neither side panics', [b])
    S.witness(ids[2], E, pre + [o_key, o_sk[0], o_trv[0]], r_ok)
    S.validate(ids[3], E, b, n=100 if S.tier == 'quick' else 400)


def _panic(E):
    return z3.Or(*[X.zbool(p[0]) for p in E.panics]) if E.panics else False


def channel_config(S, D):
    """C12.m: ChannelConfig (persisted with every channel) - writer and reader keep separate field lists, with a
    legacy fixed-limit field (type 6) next to the newer enum (type 3)."""
    ids = ['C12.m.channel_config.' + k for k in ('roundtrip', 'nopanic', 'witness', 'validate')]
    if all(S._skip(o) for o in ids):
        return
    E = S.engine(unwind=12)
    mem = {}
    fw = find_fn(S, r'::write\(_1: &(?:\w+::)*ChannelConfig, _2: &mut W\)')
    fr = find_fn(S, r'::read\(_1: &mut R\) -> (?:std::result::)?Result<(?:\w+::)*ChannelConfig, ')
    cfg = E.sym('cfg', '&util::config::ChannelConfig', mem)
    T, w_ok, r_ok, back = roundtrip(S, D, E, mem, fw, fr, cfg)
    orig = mem[cfg.cell]
    CF = D.struct_fields('ChannelConfig')
    rd = lambda v, nm, ty: E.read_path(v, (('f', CF.index(nm), ty),), mem, True, 'spec')
    eqs, ins, outs = [], [], []
    for nm, ty in (('forwarding_fee_proportional_millionths', 'u32'), ('forwarding_fee_base_msat', 'u32'), ('cltv_expiry_delta', 'u16'),
                   ('force_close_avoidance_max_fee_satoshis', 'u64')):
        a, b = rd(orig, nm, ty).t, rd(back, nm, ty).t
        eqs.append(a == b)
        ins.append(a)
        outs.append(b)
    a, b = X.zbool(rd(orig, 'accept_underpaying_htlcs', 'bool').t), X.zbool(rd(back, 'accept_underpaying_htlcs', 'bool').t)
    eqs.append(a == b)
    ins.append(z3.If(a, 1, 0))
    outs.append(z3.If(b, 1, 0))
    MD = 'util::config::MaxDustHTLCExposure'
    od, bd = rd(orig, 'max_dust_htlc_exposure', MD), rd(back, 'max_dust_htlc_exposure', MD)
    pay = lambda v: z3.If(X.zint(v.d) == 0, E.en_payload(v, 'FixedLimitMsat', 0, 0, 'u64', mem, 'spec').t, E.en_payload(v, 'FeeRateMultiplier', 1, 0, 'u64', mem, 'spec').t)
    eqs += [X.zint(od.d) == X.zint(bd.d), pay(od) == pay(bd)]
    ins += [X.zint(od.d), pay(od)]
    outs += [X.zint(bd.d), pay(bd)]
    b_ = Binding('channel_config_roundtrip', ins, [z3.If(r_ok, 1, 0)] + [z3.If(r_ok, o, 0) for o in outs], panic=_panic(E),
                 domain=[(0, U32), (0, U32), (0, U16), (0, U64), (0, 1), (0, 1), (0, U64)])
    S.prove(ids[0], E, [], z3.And(w_ok, r_ok, *eqs),
            'a ChannelConfig reads back equal to what was written: fees, CLTV delta, force-close fee limit, the underpaying-HTLC flag and the dust-exposure limit (enum and legacy fixed-limit record) - the separately written field lists of writer and reader agree',
            [b_], bounds='abstract record stream (types %s); leaf codecs abstracted; all field values' % ', '.join(str(r['t']) for r in T.recs))
    S.no_panic(ids[1], E, [], 'neither side panics', [b_])
    S.witness(ids[2], E, [X.zint(od.d) == 1], r_ok)
    S.validate(ids[3], E, b_, n=100 if S.tier == 'quick' else 400)


def channel_update_info(S, D):
    """C12.m: ChannelUpdateInfo (one per channel direction in the persisted NetworkGraph) - hand-written reader with an
    Option-wrapped htlc_maximum_msat for backwards compatibility."""
    ids = ['C12.m.channel_update_info.' + k for k in ('roundtrip', 'nopanic', 'witness', 'validate')]
    if all(S._skip(o) for o in ids):
        return
    E = S.engine(unwind=12)
    mem = {}
    fw = find_fn(S, r'::write\(_1: &(?:\w+::)*ChannelUpdateInfo, _2: &mut W\)')
    fr = find_fn(S, r'::read\(_1: &mut R\) -> (?:std::result::)?Result<(?:\w+::)*ChannelUpdateInfo, ')
    info = E.sym('info', '&routing::gossip::ChannelUpdateInfo', mem)
    T, w_ok, r_ok, back = roundtrip(S, D, E, mem, fw, fr, info)
    orig = mem[info.cell]
    CU = D.struct_fields('ChannelUpdateInfo')
    RF = D.struct_fields('RoutingFees')
    rd = lambda v, nm, ty: E.read_path(v, (('f', CU.index(nm), ty),), mem, True, 'spec')
    eqs, ins, outs = [], [], []
    for nm, ty in (('last_update', 'u32'), ('cltv_expiry_delta', 'u16'), ('htlc_minimum_msat', 'u64'), ('htlc_maximum_msat', 'u64')):
        a, b = rd(orig, nm, ty).t, rd(back, nm, ty).t
        eqs.append(a == b)
        ins.append(a)
        outs.append(b)
    a, b = X.zbool(rd(orig, 'enabled', 'bool').t), X.zbool(rd(back, 'enabled', 'bool').t)
    eqs.append(a == b)
    ins.append(z3.If(a, 1, 0))
    outs.append(z3.If(b, 1, 0))

    def ident(v):
        if getattr(v, 'alt', None) is not None:
            c_, x, y = v.alt
            return z3.If(X.zbool(c_), ident(x), ident(y))
        if getattr(v, 'base', None) is None:
            return z3.Int('ident!unknown%d' % next(E.nfresh))
        return z3.Int('ident.' + v.base)
    # fees and the stored message are leaves of their own (RoutingFees / Option<ChannelUpdate> codecs): identity
    eqs.append(ident(rd(orig, 'fees', 'routing::gossip::RoutingFees')) == ident(rd(back, 'fees', 'routing::gossip::RoutingFees')))
    om, bm = rd(orig, 'last_update_message', 'Option<ln::msgs::ChannelUpdate>'), rd(back, 'last_update_message', 'Option<ln::msgs::ChannelUpdate>')
    msg = lambda o: ident(E.en_payload(o, 'Some', 1, 0, 'ln::msgs::ChannelUpdate', mem, 'spec'))
    eqs.append(z3.And(X.zint(om.d) == X.zint(bm.d), z3.Implies(X.zint(om.d) == 1, msg(om) == msg(bm))))
    b_ = Binding('channel_update_info_roundtrip', ins, [z3.If(r_ok, 1, 0)] + [z3.If(r_ok, o, 0) for o in outs], panic=_panic(E),
                 domain=[(0, U32), (0, U16), (0, U64), (0, U64), (0, 1)])
    S.prove(ids[0], E, [], z3.And(w_ok, r_ok, *eqs),
            'a ChannelUpdateInfo of the persisted network graph reads back equal: timestamp, enabled flag, CLTV delta, HTLC minimum / maximum (written Option-wrapped for old readers), fees and the retained message',
            [b_], bounds='abstract record stream (types %s); leaf codecs abstracted; all field values' % ', '.join(str(r['t']) for r in T.recs))
    S.no_panic(ids[1], E, [], 'neither side panics', [b_])
    S.witness(ids[2], E, [], r_ok)
    S.validate(ids[3], E, b_, n=100 if S.tier == 'quick' else 400)
