"""C12 - engine K (Kani) harnesses, see harness/src/c12.rs and engine_k/harnesses.json, plus an engine M obligation
that links a persisted object's hand-written TLV writer to its separately written reader (obligations/tlv_stream.py)"""
import re
import z3
from engine_m import exec as X
from engine_m.session import Binding
from engine_k import runner as K
from .common import *
from .tlv_stream import TlvStream, find_fn, roundtrip

EVIDENCE = dict(assumptions=['kernel only: codec primitives of util/ser.rs and the TLV-stream machinery of the real exported macros on a probe struct (Kani); the field wiring of the writers of ClaimableHTLC (write_claimable_htlc), ChannelConfig and ChannelUpdateInfo against their separately written readers over an abstract record stream - leaf codecs and byte lengths abstracted (engine M); every other large persisted object (manager, monitor, graph, scorer, sweeper) and behavioural equivalence after reload are outside the claim', 'Kani model: bitcoin-io io::Error payload compiled out under cfg(kani) (harness/patched/bitcoin-io); harness-local fixed-array Writer/Reader'])


def run(S):
    claimable_htlc(S, S.decls())
    channel_config(S, S.decls())
    channel_update_info(S, S.decls())
    channel_written_as_disconnected(S, S.decls())
    K.run_property(S, 'C12')


def claimable_htlc(S, D):
    """C12.m: a ClaimableHTLC (persisted inside ChannelManager for every payment awaiting a claim) written by
    write_claimable_htlc reads back through <(ClaimableHTLC, u64) as Readable>::read with every field intact.
    The two sides keep separate TLV field lists; both macro expansions are executed from their MIR over the
    abstract record stream of tlv_stream.py."""
    ids = ('C12.m.claimable_htlc.roundtrip', 'C12.m.claimable_htlc.nopanic', 'C12.m.claimable_htlc.witness', 'C12.m.claimable_htlc.validate')
    if all(S._skip(o) for o in ids):
        return
    E = S.engine(unwind=14)
    mem = {}
    fw = S.fn('write_claimable_htlc')
    ix = S.mir()
    c = [i for i in range(len(ix.offsets)) if re.search(r'::read\(_1: &mut R\) -> (?:std::result::)?Result<\((?:\w+::)*ClaimableHTLC, u64\)', ix.offsets[i][0])]
    if len(c) != 1:
        raise X.Unsupported('reader of (ClaimableHTLC, u64): %d candidates' % len(c))
    fr = ix.get(c[0])
    T = TlvStream(E, D)
    T.install_writer()
    htlc = E.sym('htlc', '&ln::channelmanager::ClaimableHTLC', mem)
    total = E.sym('total', 'u64')
    wcell = E.new_cell()
    mem[wcell] = X.Opaque('writer')
    wr = S.call(E, fw, [htlc, total, X.Ref(wcell)], mem)
    w_ok = z3.And(S.ret_guard, X.zint(wr.d) == 0)
    recs = T.finish_writer()
    T.install_reader()
    rcell = E.new_cell()
    mem[rcell] = X.Opaque('reader')
    rr = S.call(E, fr, [X.Ref(rcell)], mem)
    r_ok = z3.And(S.ret_guard, X.zint(rr.d) == 0)
    back, back_total = rr.vs[0][0].fs[0], rr.vs[0][0].fs[1]
    orig = mem[htlc.cell]
    MP, CH = D.struct_fields('MppPart'), D.struct_fields('ClaimableHTLC')
    rd = lambda v, path: E.read_path(v, path, mem, True, 'spec')

    def part(v, nm, ty):
        mp = rd(v, (('f', CH.index('mpp_part'), 'ln::channelmanager::MppPart'),))
        return rd(mp, (('f', MP.index(nm), ty),))

    def ident(v):
        """identity of an abstract (non-integer) leaf value"""
        if getattr(v, 'alt', None) is not None:
            c_, a, b = v.alt
            return z3.If(X.zbool(c_), ident(a), ident(b))
        if getattr(v, 'base', None) is None:
            return z3.Int('ident!unknown%d' % next(E.nfresh))
        return z3.Int('ident.' + v.base)

    def opt_u64(o):
        return X.zint(o.d) == 1, E.en_payload(o, 'Some', 1, 0, 'u64', mem, 'spec').t
    both = []
    flat_in, flat_out = [], []
    for nm, ty in (('value', 'u64'), ('sender_intended_value', 'u64'), ('cltv_expiry', 'u32')):
        a, b = part(orig, nm, ty).t, part(back, nm, ty).t
        both.append(a == b)
        flat_in.append(a)
        flat_out.append(b)
    both.append(total.t == back_total.t)
    o_trv, b_trv = opt_u64(part(orig, 'total_value_received', 'Option<u64>')), opt_u64(part(back, 'total_value_received', 'Option<u64>'))
    o_sk = opt_u64(rd(orig, (('f', CH.index('counterparty_skimmed_fee_msat'), 'Option<u64>'),)))
    b_sk = opt_u64(rd(back, (('f', CH.index('counterparty_skimmed_fee_msat'), 'Option<u64>'),)))
    for (os_, ov), (bs_, bv) in ((o_trv, b_trv), (o_sk, b_sk)):
        both.append(z3.And(os_ == bs_, z3.Implies(os_, ov == bv)))
    both.append(ident(part(orig, 'prev_hop', 'ln::channelmanager::HTLCPreviousHopData')) == ident(part(back, 'prev_hop', 'ln::channelmanager::HTLCPreviousHopData')))
    o_pl = rd(orig, (('f', CH.index('onion_payload'), 'ln::channelmanager::OnionPayload'),))
    b_pl = rd(back, (('f', CH.index('onion_payload'), 'ln::channelmanager::OnionPayload'),))
    SP = D.variant_index('OnionPayload', 'Spontaneous')
    o_key, b_key = X.zint(o_pl.d) == SP, X.zint(b_pl.d) == SP
    o_data = rd(o_pl, (('v', 'Invoice'), ('f', 0, 'Option<ln::msgs::FinalOnionHopData>')))
    b_data = rd(b_pl, (('v', 'Invoice'), ('f', 0, 'Option<ln::msgs::FinalOnionHopData>')))
    o_has, b_has = z3.And(z3.Not(o_key), X.zint(o_data.d) == 1), z3.And(z3.Not(b_key), X.zint(b_data.d) == 1)
    both += [o_key == b_key, o_has == b_has]
    both.append(z3.Implies(o_key, ident(rd(o_pl, (('v', 'Spontaneous'), ('f', 0, 'types::payment::PaymentPreimage')))) == ident(rd(b_pl, (('v', 'Spontaneous'), ('f', 0, 'types::payment::PaymentPreimage'))))))
    both.append(z3.Implies(o_has, ident(rd(o_data, (('v', 'Some'), ('f', 0, 'ln::msgs::FinalOnionHopData')))) == ident(rd(b_data, (('v', 'Some'), ('f', 0, 'ln::msgs::FinalOnionHopData'))))))
    panic = z3.Or(*[X.zbool(p[0]) for p in E.panics]) if E.panics else False
    v_, siv, cl = flat_in
    args = [v_, siv, total.t, z3.If(o_trv[0], 1, 0), z3.If(o_trv[0], o_trv[1], 0), cl, z3.If(o_sk[0], 1, 0), z3.If(o_sk[0], o_sk[1], 0), z3.If(o_key, 1, 0), z3.If(o_has, 1, 0)]
    outs = [z3.If(r_ok, 1, 0), flat_out[0], flat_out[1], back_total.t, z3.If(b_trv[0], 1, 0), z3.If(b_trv[0], b_trv[1], 0), flat_out[2],
            z3.If(b_sk[0], 1, 0), z3.If(b_sk[0], b_sk[1], 0), z3.If(b_key, 1, 0), z3.If(b_has, 1, 0)]
    outs = [outs[0]] + [z3.If(r_ok, o, 0) for o in outs[1:]]
    pre = [z3.Implies(o_has, True)]
    b = Binding('claimable_htlc_roundtrip', args, outs, panic=panic,
                domain=[(0, U64), (0, U64), (0, U64), (0, 1), (0, U64), (0, U32), (0, 1), (0, U64), (0, 1), (0, 1)])
    S.prove(ids[0], E, pre, z3.And(w_ok, r_ok, *both),
            'a ClaimableHTLC written by write_claimable_htlc reads back with every field intact (amounts, sender-intended amount, CLTV expiry, total, received total, skimmed fee, previous hop, keysend preimage / legacy payment data): the writer\'s and the reader\'s separately maintained TLV field lists agree',
            [b], bounds='abstract record stream: %d records (%s); leaf codecs and byte lengths abstracted; all field values' % (len(recs), ', '.join(str(r['t']) for r in recs)))
    S.no_panic(ids[1], E, pre, 'neither side panics', [b])
    S.witness(ids[2], E, pre + [o_key, o_sk[0], o_trv[0]], r_ok)
    S.validate(ids[3], E, b, n=100 if S.tier == 'quick' else 400)


def _panic(E):
    return z3.Or(*[X.zbool(p[0]) for p in E.panics]) if E.panics else False


def channel_config(S, D):
    """C12.m: ChannelConfig (persisted with every channel) - writer and reader keep separate field lists, with a
    legacy fixed-limit field (type 6) next to the newer enum (type 3)."""
    ids = ['C12.m.channel_config.' + k for k in ('roundtrip', 'nopanic', 'witness', 'validate')]
    if all(S._skip(o) for o in ids):
        return
    E = S.engine(unwind=12)
    mem = {}
    fw = find_fn(S, r'::write\(_1: &(?:\w+::)*ChannelConfig, _2: &mut W\)')
    fr = find_fn(S, r'::read\(_1: &mut R\) -> (?:std::result::)?Result<(?:\w+::)*ChannelConfig, ')
    cfg = E.sym('cfg', '&util::config::ChannelConfig', mem)
    T, w_ok, r_ok, back = roundtrip(S, D, E, mem, fw, fr, cfg)
    orig = mem[cfg.cell]
    CF = D.struct_fields('ChannelConfig')
    rd = lambda v, nm, ty: E.read_path(v, (('f', CF.index(nm), ty),), mem, True, 'spec')
    eqs, ins, outs = [], [], []
    for nm, ty in (('forwarding_fee_proportional_millionths', 'u32'), ('forwarding_fee_base_msat', 'u32'), ('cltv_expiry_delta', 'u16'),
                   ('force_close_avoidance_max_fee_satoshis', 'u64')):
        a, b = rd(orig, nm, ty).t, rd(back, nm, ty).t
        eqs.append(a == b)
        ins.append(a)
        outs.append(b)
    a, b = X.zbool(rd(orig, 'accept_underpaying_htlcs', 'bool').t), X.zbool(rd(back, 'accept_underpaying_htlcs', 'bool').t)
    eqs.append(a == b)
    ins.append(z3.If(a, 1, 0))
    outs.append(z3.If(b, 1, 0))
    MD = 'util::config::MaxDustHTLCExposure'
    od, bd = rd(orig, 'max_dust_htlc_exposure', MD), rd(back, 'max_dust_htlc_exposure', MD)
    pay = lambda v: z3.If(X.zint(v.d) == 0, E.en_payload(v, 'FixedLimitMsat', 0, 0, 'u64', mem, 'spec').t, E.en_payload(v, 'FeeRateMultiplier', 1, 0, 'u64', mem, 'spec').t)
    eqs += [X.zint(od.d) == X.zint(bd.d), pay(od) == pay(bd)]
    ins += [X.zint(od.d), pay(od)]
    outs += [X.zint(bd.d), pay(bd)]
    b_ = Binding('channel_config_roundtrip', ins, [z3.If(r_ok, 1, 0)] + [z3.If(r_ok, o, 0) for o in outs], panic=_panic(E),
                 domain=[(0, U32), (0, U32), (0, U16), (0, U64), (0, 1), (0, 1), (0, U64)])
    S.prove(ids[0], E, [], z3.And(w_ok, r_ok, *eqs),
            'a ChannelConfig reads back equal to what was written: fees, CLTV delta, force-close fee limit, the underpaying-HTLC flag and the dust-exposure limit (enum and legacy fixed-limit record) - the separately written field lists of writer and reader agree',
            [b_], bounds='abstract record stream (types %s); leaf codecs abstracted; all field values' % ', '.join(str(r['t']) for r in T.recs))
    S.no_panic(ids[1], E, [], 'neither side panics', [b_])
    S.witness(ids[2], E, [X.zint(od.d) == 1], r_ok)
    S.validate(ids[3], E, b_, n=100 if S.tier == 'quick' else 400)


def channel_update_info(S, D):
    """C12.m: ChannelUpdateInfo (one per channel direction in the persisted NetworkGraph) - hand-written reader with an
    Option-wrapped htlc_maximum_msat for backwards compatibility."""
    ids = ['C12.m.channel_update_info.' + k for k in ('roundtrip', 'nopanic', 'witness', 'validate')]
    if all(S._skip(o) for o in ids):
        return
    E = S.engine(unwind=12)
    mem = {}
    fw = find_fn(S, r'::write\(_1: &(?:\w+::)*ChannelUpdateInfo, _2: &mut W\)')
    fr = find_fn(S, r'::read\(_1: &mut R\) -> (?:std::result::)?Result<(?:\w+::)*ChannelUpdateInfo, ')
    info = E.sym('info', '&routing::gossip::ChannelUpdateInfo', mem)
    T, w_ok, r_ok, back = roundtrip(S, D, E, mem, fw, fr, info)
    orig = mem[info.cell]
    CU = D.struct_fields('ChannelUpdateInfo')
    RF = D.struct_fields('RoutingFees')
    rd = lambda v, nm, ty: E.read_path(v, (('f', CU.index(nm), ty),), mem, True, 'spec')
    eqs, ins, outs = [], [], []
    for nm, ty in (('last_update', 'u32'), ('cltv_expiry_delta', 'u16'), ('htlc_minimum_msat', 'u64'), ('htlc_maximum_msat', 'u64')):
        a, b = rd(orig, nm, ty).t, rd(back, nm, ty).t
        eqs.append(a == b)
        ins.append(a)
        outs.append(b)
    a, b = X.zbool(rd(orig, 'enabled', 'bool').t), X.zbool(rd(back, 'enabled', 'bool').t)
    eqs.append(a == b)
    ins.append(z3.If(a, 1, 0))
    outs.append(z3.If(b, 1, 0))

    def ident(v):
        if getattr(v, 'alt', None) is not None:
            c_, x, y = v.alt
            return z3.If(X.zbool(c_), ident(x), ident(y))
        if getattr(v, 'base', None) is None:
            return z3.Int('ident!unknown%d' % next(E.nfresh))
        return z3.Int('ident.' + v.base)
    # fees and the stored message are leaves of their own (RoutingFees / Option<ChannelUpdate> codecs): identity
    eqs.append(ident(rd(orig, 'fees', 'routing::gossip::RoutingFees')) == ident(rd(back, 'fees', 'routing::gossip::RoutingFees')))
    om, bm = rd(orig, 'last_update_message', 'Option<ln::msgs::ChannelUpdate>'), rd(back, 'last_update_message', 'Option<ln::msgs::ChannelUpdate>')
    msg = lambda o: ident(E.en_payload(o, 'Some', 1, 0, 'ln::msgs::ChannelUpdate', mem, 'spec'))
    eqs.append(z3.And(X.zint(om.d) == X.zint(bm.d), z3.Implies(X.zint(om.d) == 1, msg(om) == msg(bm))))
    b_ = Binding('channel_update_info_roundtrip', ins, [z3.If(r_ok, 1, 0)] + [z3.If(r_ok, o, 0) for o in outs], panic=_panic(E),
                 domain=[(0, U32), (0, U16), (0, U64), (0, U64), (0, 1)])
    S.prove(ids[0], E, [], z3.And(w_ok, r_ok, *eqs),
            'a ChannelUpdateInfo of the persisted network graph reads back equal: timestamp, enabled flag, CLTV delta, HTLC minimum / maximum (written Option-wrapped for old readers), fees and the retained message',
            [b_], bounds='abstract record stream (types %s); leaf codecs abstracted; all field values' % ', '.join(str(r['t']) for r in T.recs))
    S.no_panic(ids[1], E, [], 'neither side panics', [b_])
    S.witness(ids[2], E, [], r_ok)
    S.validate(ids[3], E, b_, n=100 if S.tier == 'quick' else 400)


def channel_written_as_disconnected(S, D):
    """C12.n: FundedChannel::write serialises the channel AS IF the peer had just disconnected (the reader marks it
    disconnected). Differential: the parts of `write` that depend on uncommitted remote updates - which inbound HTLCs are
    written, the inbound count, next_counterparty_htlc_id, the pending fee update - are compared with what the real
    remove_uncommitted_htlcs_and_mark_paused leaves behind on the same state."""
    for N in ((0, 1, 2) if S.tier == 'quick' else (0, 1, 2, 3)):
        tag = 'C12.n.n%d' % N
        ids = [tag + '.inbound_htlcs', tag + '.counter_and_fee', tag + '.witness']
        if all(S._skip(o) for o in ids):
            continue
        ix = S.mir()
        c = [i for i in range(len(ix.offsets)) if re.search(r'::write\(_1: &(?:\w+::)*FundedChannel<SP>, _2: &mut W\)', ix.offsets[i][0])]
        if len(c) != 1:
            raise X.Unsupported('writer of FundedChannel: %d candidates' % len(c))
        fw = ix.get(c[0])
        fd = S.fn('remove_uncommitted_htlcs_and_mark_paused')
        E = S.engine(unwind=N + 2)
        CC, FC = D.struct_fields('ChannelContext'), D.struct_fields('FundedChannel')
        IH = D.struct_fields('InboundHTLCOutput')
        IS = lambda n: D.variant_index('InboundHTLCState', n)
        FU = lambda n: D.variant_index('FeeUpdateState', n)
        nstates = len(D.enum_variants('InboundHTLCState'))
        st = [E.sym('inbound%d.state' % i, 'u8') for i in range(N)]
        hid = [E.sym('inbound%d.htlc_id' % i, 'u64') for i in range(N)]
        for s_ in st:
            E.assume(z3.And(s_.t >= 0, s_.t < nstates))

        mem_any = {}

        def htlc(i):
            vs = {k: [X.Opaque('state payload %d.%d' % (i, k))] for k in range(nstates)}
            vs[IS('LocalRemoved')] = [E.sym('inbound%d.removal_reason' % i, 'ln::channel::InboundHTLCRemovalReason', mem_any)]
            return X.Adt('InboundHTLCOutput', {IH.index('htlc_id'): hid[i], IH.index('state'): X.En('InboundHTLCState', st[i].t, vs, base='in%d.state' % i)}, base='inbound%d' % i)
        outbound = z3.Bool('channel.is_outbound')
        has_fee = z3.Bool('pending_update_fee.present')
        feerate, fstate = E.sym('pending_update_fee.feerate', 'u32'), E.sym('pending_update_fee.state', 'u8')
        E.assume(z3.And(fstate.t >= 0, fstate.t < 3))
        nxt = E.sym('next_counterparty_htlc_id', 'u64')
        n_remote = z3.Sum([z3.If(st[i].t == IS('RemoteAnnounced'), 1, 0) for i in range(N)]) if N else z3.IntVal(0)
        E.assume(nxt.t >= n_remote)                # every inbound HTLC got its id from this counter
        # a fee update we proposed is in state Outbound, one the peer proposed never is (debug-asserted by the library)
        E.assume(z3.Implies(has_fee, (fstate.t == FU('Outbound')) == outbound))

        def channel(mem):
            ctx = X.Adt('ChannelContext', {CC.index('pending_inbound_htlcs'): X.Seq([htlc(i) for i in range(N)], N, 'InboundHTLCOutput'),
                                           CC.index('pending_outbound_htlcs'): X.Seq([], 0, 'OutboundHTLCOutput'),
                                           CC.index('next_counterparty_htlc_id'): nxt,
                                           CC.index('pending_update_fee'): X.En('Option', z3.If(has_fee, 1, 0), {1: [X.Tup([feerate, X.En('FeeUpdateState', fstate.t, {})])]})}, base='ctx')
            cell = E.new_cell()
            mem[cell] = X.Adt('FundedChannel', {FC.index('context'): ctx}, base='chan')
            return cell
        # ---- the reference: what a disconnection leaves behind
        mem_d = {}
        cd = channel(mem_d)
        for rx, h in [
            (r'ChannelContext::<.*>::can_resume_on_reconnect$', lambda *a: X.B(True)),
            (r'ChannelState::is_peer_disconnected$', lambda *a: X.B(False)),
            (r'ChannelState::set_peer_disconnected$', lambda *a: X.UNIT),
            (r'FundingScope::is_outbound$', lambda *a: X.B(outbound)),
            (r'AnnouncementSigsState as PartialEq>::eq$', lambda *a: X.B(z3.Bool('ann_sigs!%d' % next(E.nfresh)))),
            (r'FeeUpdateState as PartialEq>::eq$', lambda E_, m, func, argv, guard, mem_, dty, caller: X.B(X.zint(_deref(E_, argv[0], mem_).d) == X.zint(_deref(E_, argv[1], mem_).d))),
            (r'ChannelContext::<.*>::channel_id$', lambda *a: X.Opaque('channel id')),
            (r'Arguments::<.*>::from_str$|Arguments::<.*>::new', lambda *a: X.Opaque('fmt args')),
            (r'Record::<.*>::new', lambda *a: X.Opaque('log record')),
            (r'Logger>::log$', lambda *a: X.UNIT),
            (r'Argument::<.*>::new_', lambda *a: X.Opaque('fmt arg')),
            (r'^format$|^must_use::<', lambda *a: X.Opaque('string')),
            (r'^std::mem::drop::<|drop_in_place', lambda *a: X.UNIT),
        ]:
            E.models.insert(0, (re.compile(rx), h))
        n_pan0 = len(E.panics)
        rv = S.call(E, fd, [X.Ref(cd), X.Opaque('logger')], mem_d)
        ctx_d = E.read_path(mem_d[cd], (('f', FC.index('context'), 'ChannelContext'),), mem_d, True, 'spec')
        lst_d = E.read_path(ctx_d, (('f', CC.index('pending_inbound_htlcs'), 'Vec'),), mem_d, True, 'spec')
        nxt_d = E.read_path(ctx_d, (('f', CC.index('next_counterparty_htlc_id'), 'u64'),), mem_d, True, 'spec')
        fee_d = E.read_path(ctx_d, (('f', CC.index('pending_update_fee'), 'Option'),), mem_d, True, 'spec')
        if not isinstance(lst_d, X.Seq):
            raise X.Unsupported('inbound HTLCs after disconnection: %r' % (lst_d,))
        els = list(zip(lst_d.elems, lst_d.pres if not lst_d.prefix else [X.simp(X.zint(lst_d.n) > i) for i in range(len(lst_d.elems))]))
        kept = [X.zbool(els[i][1]) if i < len(els) else z3.BoolVal(False) for i in range(N)]
        fee_d_some = X.zint(fee_d.d) == 1
        fee_d_rate = E.read_path(fee_d, (('v', 'Some'), ('f', 0, 'tuple'), ('f', 0, 'u32')), mem_d, True, 'spec') if 1 in fee_d.vs else None
        # ---- the writer, region 1: the inbound HTLCs
        mem_w = {}
        cw = channel(mem_w)
        writes = []

        def h_write(kind):
            def h(E_, m, func, argv, guard, mem_, dty, caller):
                writes.append((kind, X.zbool(guard), _deref(E_, argv[0], mem_)))
                return X.En('Result', 0, {0: [X.UNIT]})
            return h
        for rx, h in [                     # inserted at the front one by one: the LAST entry is tried first
            (r'Vec::<&.*>::push$', lambda *a: X.UNIT),
            (r'^<.* as (?:util::ser::)?Writeable>::write::<', lambda *a: X.En('Result', 0, {0: [X.UNIT]})),
            (r'^<Option<u32> as (?:util::ser::)?Writeable>::write::<', h_write('opt_u32')),
            (r'^<u64 as (?:util::ser::)?Writeable>::write::<', h_write('u64')),
        ]:
            E.models.insert(0, (re.compile(rx), h))
        dbg = {n: l for n, l in fw.debug_all} if hasattr(fw, 'debug_all') else {}
        start = [b for b, (bd, t) in fw.blocks.items() if any(st_[0] == 'assign' and st_[2] == ('use', ('const', '0_u64')) for st_ in bd) and t[0] == 'call' and 'InboundHTLCOutput' in t[2]]
        stop1 = _calls(fw, r'Vec::<Option<&.*PaymentPreimage>>::new$')
        if len(start) != 1 or len(stop1) != 1:
            raise X.Unsupported('FundedChannel::write: %d starts of the inbound part, %d ends' % (len(start), len(stop1)))
        wcell = E.new_cell()
        mem_w[wcell] = X.Opaque('writer')
        run1 = X.FnRun(E, fw, [X.Ref(cw), X.Ref(wcell)], True, mem_w)
        E.depth += 1
        run1.run(start_bb=start[0], init={}, stop_bbs=(stop1[0],))
        E.depth -= 1
        w1 = list(writes)
        del writes[:]
        reached1 = z3.Or(*[X.zbool(g) for g, m_ in run1.stop_states.get(stop1[0], [])]) if run1.stop_states.get(stop1[0]) else z3.BoolVal(False)
        if not w1:
            raise X.Unsupported('FundedChannel::write: no u64 written in the inbound part')
        count_w = w1[0][2]
        written = []
        for i in range(N):
            hits = [g for k, g, v in w1[1:] if k == 'u64' and z3.is_expr(X.zint(v.t)) and X.zint(v.t).eq(hid[i].t)]
            written.append(z3.Or(*hits) if hits else z3.BoolVal(False))
        n_kept = z3.Sum([z3.If(k_, 1, 0) for k_ in kept]) if N else z3.IntVal(0)
        S.prove(ids[0], E, [], z3.And(reached1, X.zint(count_w.t) == n_kept, *[written[i] == kept[i] for i in range(N)]),
                'the inbound HTLCs FundedChannel::write serialises, and the count it announces for them, are exactly the ones a peer disconnection keeps (an HTLC the peer announced but never committed is dropped: the peer re-sends it after channel_reestablish)',
                [reload_binding(z3.BoolVal(False))], given_no_panic=True,
                bounds='%d inbound HTLCs in arbitrary states; region of FundedChannel::write over the inbound HTLCs vs. the real remove_uncommitted_htlcs_and_mark_paused on the same state; field codecs stubbed' % N)
        # ---- the writer, region 2: pending fee update and the inbound id counter (with the dropped count the first region computed)
        dropped = E.sym('write.dropped_inbound_htlcs', 'u64')
        starts2 = [b for b in _calls(fw, r'FundingScope::is_outbound$') if any('FeeUpdateState' in str(fw.blocks[x]) for x in _next_blocks(fw, b, 3))]
        stop2 = [b for b, (bd, t) in fw.blocks.items() if t[0] == 'call' and re.search(r'^<u32 as (?:util::ser::)?Writeable>::write::<', t[2]) and any(st_[0] == 'assign' and st_[2][0] == 'ref' and _is_field(st_[2][2], CC.index('update_time_counter')) for st_ in bd)]
        loc = [l for n, l in (fw.debug_all if hasattr(fw, 'debug_all') else []) if n == 'dropped_inbound_htlcs']
        if len(starts2) != 1 or not stop2 or not loc:
            raise X.Unsupported('FundedChannel::write: %d fee parts, %d ends, dropped counter %r' % (len(starts2), len(stop2), loc))
        m_ = re.search(r'_(\d+)', str(loc[0]))
        mem_w2 = {}
        cw2 = channel(mem_w2)
        wcell2 = E.new_cell()
        mem_w2[wcell2] = X.Opaque('writer')
        run2 = X.FnRun(E, fw, [X.Ref(cw2), X.Ref(wcell2)], True, mem_w2)
        E.depth += 1
        run2.run(start_bb=starts2[0], init={int(m_.group(1)): dropped}, stop_bbs=tuple(stop2))
        E.depth -= 1
        w2 = list(writes)
        fee_w = [(g, v) for k, g, v in w2 if k == 'opt_u32']
        u64_w = [(g, v) for k, g, v in w2 if k == 'u64']
        if len(fee_w) < 2 or len(u64_w) < 2:
            raise X.Unsupported('FundedChannel::write: fee part wrote %d Option<u32>, %d u64' % (len(fee_w), len(u64_w)))
        # the LAST Option<u32> is holding_cell_update_fee; the ones before it are the arms of the pending fee update
        arms = fee_w[:-1]
        fee_ok = []
        for g, v in arms:
            some = X.zint(v.d) == 1
            rate = E.read_path(v, (('v', 'Some'), ('f', 0, 'u32')), mem_w2, True, 'spec') if isinstance(v, X.En) and 1 in v.vs else None
            fee_ok.append(z3.Implies(g, z3.And(some == fee_d_some, z3.Implies(some, rate.t == fee_d_rate.t) if rate is not None and fee_d_rate is not None else z3.Not(some))))
        one_arm = z3.Sum([z3.If(g, 1, 0) for g, v in arms]) == 1
        # u64 writes of the region, in order: next_holder_htlc_id, then next_counterparty_htlc_id - dropped
        cnt_g, cnt_v = u64_w[1]
        S.prove(ids[1], E, [dropped.t == N - n_kept], z3.And(one_arm, *fee_ok, cnt_g, X.zint(cnt_v.t) == X.zint(nxt_d.t)),
                'FundedChannel::write stores the pending fee update and the counter of inbound HTLC ids as a peer disconnection leaves them: a fee update the peer announced but never committed is not stored, one it committed is, and the id counter is wound back by the HTLCs dropped - so the peer\'s retransmission after reconnecting is accepted and nothing it committed is forgotten',
                [reload_binding(z3.BoolVal(False))], given_no_panic=True,
                bounds='region of FundedChannel::write from the pending fee update to update_time_counter vs. the real remove_uncommitted_htlcs_and_mark_paused; %d inbound HTLCs' % N)
        S.witness(ids[2], E, [has_fee, z3.Not(outbound), fstate.t == FU('RemoteAnnounced')], z3.Not(fee_d_some))
    S.validate('C12.n.validate', E, reload_binding(z3.BoolVal(True)), n=1, extra_vectors=[(1,)])


def reload_binding(claim):
    """replay (oracle_tu channel_reload_battery): a node is serialised while a peer's update_add_htlc / update_fee is
    announced but not yet committed, and after it is committed; it is reloaded and reconnected, and the channel must go on:
    the peer's retransmission is accepted, payments complete, no channel is closed"""
    c = claim if z3.is_expr(claim) else X.zbool(claim)
    return Binding('channel_reload_battery', [z3.IntVal(1)], [z3.If(c, 0, 1)], parse=lambda t: [0 if t[0] == '0' else 1], line_fn=lambda v: '1',
                   which='oracle_tu', via_solver=True, domain=[(1, 1)], panic=False)


def _calls(f, rx):
    r = re.compile(rx)
    return [b for b, (body, t) in f.blocks.items() if t[0] == 'call' and r.search(t[2])]


def _next_blocks(f, b, depth):
    out, frontier = set(), {b}
    for _ in range(depth):
        nxt = set()
        for x in frontier:
            t = f.blocks[x][1]
            if t[0] == 'call' and t[4] is not None:
                nxt.add(t[4])
            elif t[0] == 'goto':
                nxt.add(t[1])
            elif t[0] == 'switch':
                nxt.update(t[2].values())
                if t[3] is not None:
                    nxt.add(t[3])
        out |= nxt
        frontier = nxt
    return out


def _is_field(place, idx):
    return isinstance(place, tuple) and place[0] == 'field' and place[2] == idx


def _deref(E, v, mem_):
    while isinstance(v, X.Ref):
        v = E.read_path(mem_[v.cell], v.path, mem_, True, 'deref')
    return v
