"""C12 - engine K (Kani) harnesses, see harness/src/c12.rs and engine_k/harnesses.json"""
from engine_k import runner as K

EVIDENCE = dict(assumptions=['kernel only: codec primitives of util/ser.rs and the TLV-stream machinery of the real exported macros on a probe struct; every large persisted object (manager, monitor, graph, scorer, sweeper) and behavioural equivalence after reload are outside the claim', 'Kani model: bitcoin-io io::Error payload compiled out under cfg(kani) (harness/patched/bitcoin-io); harness-local fixed-array Writer/Reader'])


def run(S):
    K.run_property(S, 'C12')
