"""C03 — outbound payments reach a truthful terminal outcome: the bookkeeping kernel of ln/outbound_payment.rs.

One call of OutboundPayments::{claim_htlc, fail_htlc, abandon_payment, add_new_pending_payment} on ONE pending-payment
entry in an arbitrary state (one run per variant of PendingOutboundPayment, its fields symbolic): which events are
queued, how often, in which order, and what state the entry is left in.  The map of pending payments is a stub that
answers for this one payment id (entry occupied with the given state / vacant); the set of in-flight HTLC ids
(`session_privs`) is abstracted to its size; onion-failure decoding, hashing and the probe test are free."""
import re
import z3
from engine_m import exec as X
from engine_m.session import Binding
from .common import *

EVIDENCE = dict(assumptions=[
    'kernel only (narrow): OutboundPayments::claim_htlc, fail_htlc, abandon_payment and add_new_pending_payment together with the PendingOutboundPayment methods they call (mark_fulfilled, mark_abandoned, remove, remaining_parts, is_fulfilled, is_auto_retryable_now, ...), executed from the MIR, one run per state variant of the entry',
    'the map of pending payments is a stub answering for the one payment id concerned (occupied with the given state, or vacant); the set of in-flight HTLCs of the payment (session_privs) is abstracted to its size (remove / insert report a free present / absent); HTLCFailReason::decode_onion_failure, payment_is_probe, SHA-256 and logging are free; the event queue records what is pushed',
    'that the ChannelManager calls these functions exactly when an HTLC is claimed / failed (off-chain, on-chain, after restart), balances, retries (check_retry_payments), persistence and replay of events across restarts are outside the claim'])

SETV = ('Legacy', 'Retryable', 'Fulfilled', 'Abandoned')          # variants that carry in-flight HTLCs
NOSET = ('AwaitingOffer', 'AwaitingInvoice', 'InvoiceReceived', 'StaticInvoiceReceived')


class Env:
    """one engine + the stubs shared by the obligations"""

    def __init__(self, S, D, variant, unwind=2, summaries=True):
        self.S, self.D = S, D
        E = self.E = S.engine(unwind=unwind)
        self.mem = mem = {}
        ev = D.enum_variants('PendingOutboundPayment')
        self.POP = {n: i for i, (n, d, f) in enumerate(ev)}
        self.fields = {n: f for n, d, f in ev}
        self.variant = variant
        vi = self.POP[variant]
        self.parts0 = E.sym('payment.in_flight_htlcs', 'usize')
        payload = {}
        if variant in SETV:
            pl = [None] * len(self.fields[variant])
            pl[self.fields[variant].index('session_privs')] = X.I(self.parts0.t, 'usize')
            payload = {vi: pl}
        self.pay0 = X.En('PendingOutboundPayment', vi, payload, base='payment')
        self.pc = E.new_cell()
        mem[self.pc] = self.pay0
        self.occupied = z3.Bool('entry.occupied')
        self.events, self.removed, self.inserted = [], [], []
        self.was_present = z3.Bool('htlc.was_in_flight')
        self.is_probe = z3.Bool('payment.is_probe')
        self.awaiting_retry_elsewhere = z3.Bool('other_payment.awaiting_retry')
        EVV = {n: i for i, (n, d, f) in enumerate(D.enum_variants('Event'))}
        self.EVV = EVV

        def setval(v, mem_):
            while isinstance(v, X.Ref):
                v = E.read_path(mem_[v.cell], v.path, mem_, True, 'set')
            return v

        def h_set_remove(E_, m, func, argv, guard, mem_, dty, caller):
            r_ = argv[0]
            cur = setval(r_, mem_)
            if not isinstance(cur, X.I):
                raise X.Unsupported('in-flight set is %r' % (cur,))
            E.assume(z3.Implies(z3.And(X.zbool(guard), self.was_present), cur.t >= 1))
            mem_[r_.cell] = E.write_path(mem_[r_.cell], r_.path, X.I(z3.If(self.was_present, cur.t - 1, cur.t), 'usize'), mem_, guard, 'remove')
            return X.B(self.was_present)

        def h_set_len(E_, m, func, argv, guard, mem_, dty, caller):
            return setval(argv[0], mem_)

        def h_take(E_, m, func, argv, guard, mem_, dty, caller):
            r_ = argv[0]
            if not isinstance(r_, X.Ref):
                return X.En('Option', E.sym('taken!%d' % next(E.nfresh), 'u8').t, {1: [X.Opaque('action')]})
            old = E.read_path(mem_[r_.cell], r_.path, mem_, guard, 'take')
            mem_[r_.cell] = E.write_path(mem_[r_.cell], r_.path, X.En('Option', 0, {}), mem_, guard, 'take')
            return old

        def h_push(E_, m, func, argv, guard, mem_, dty, caller):
            self.events.append((X.zbool(guard), argv[1]))
            return X.UNIT
        def cur_count(v):
            # size of the in-flight set of a payment value whose variant may be symbolic (after mark_abandoned / mark_fulfilled)
            d = X.zint(v.d)
            out = z3.IntVal(0)
            for nm in SETV:
                vi_ = self.POP[nm]
                try:
                    c = E.en_payload(v, nm, vi_, self.fields[nm].index('session_privs'), 'usize', self.mem, 'count')
                except X.Unsupported:
                    continue
                if isinstance(c, X.I):
                    out = z3.If(d == vi_, c.t, out)
            return out

        def h_remaining(E_, m, func, argv, guard, mem_, dty, caller):
            return X.I(cur_count(setval(argv[0], mem_)), 'usize')

        def h_remove_summary(E_, m, func, argv, guard, mem_, dty, caller):
            # summary of PendingOutboundPayment::remove (checked against its MIR per variant: C03.m.remove.*): the HTLC
            # leaves the in-flight set iff it was in it; (the amounts a Retryable entry tracks are not part of the claims)
            r_ = argv[0]
            v = setval(r_, mem_)
            d = X.zint(v.d)
            holds_set = z3.Or(*[d == self.POP[nm] for nm in SETV])
            present = z3.And(self.was_present, holds_set)
            E.assume(z3.Implies(z3.And(X.zbool(guard), present), cur_count(v) >= 1))
            new = v
            for nm in SETV:
                vi_ = self.POP[nm]
                k = self.fields[nm].index('session_privs')
                try:
                    c = E.en_payload(v, nm, vi_, k, 'usize', self.mem, 'count')
                except X.Unsupported:
                    continue
                if isinstance(c, X.I):
                    new = E.write_path(new, (('v', nm), ('f', k, 'usize')), X.I(z3.If(z3.And(present, d == vi_), c.t - 1, c.t), 'usize'), mem_, guard, 'remove')
            mem_[r_.cell] = E.write_path(mem_[r_.cell], r_.path, new, mem_, guard, 'remove')
            return X.B(present)
        if summaries:
            E.models.insert(0, (re.compile(r'PendingOutboundPayment::remaining_parts$'), h_remaining))
            E.models.insert(0, (re.compile(r'PendingOutboundPayment::remove$'), h_remove_summary))
        for rx, h in [
            (r'Mutex::<.*>::lock$', lambda E_, m, func, argv, *a: X.En('Result', 0, {0: [argv[0]]})),
            (r'MutexGuard<.*> as (?:std::ops::)?Deref(?:Mut)?>::deref(?:_mut)?$', lambda *a: X.Opaque('locked')),
            (r'HashMap::<PaymentId, PendingOutboundPayment.*>::entry$', lambda *a: X.En('Entry', z3.If(self.occupied, 0, 1), {0: [X.Opaque('occupied entry')], 1: [X.Opaque('vacant entry')]})),
            (r'OccupiedEntry::<.*PendingOutboundPayment.*>::get(?:_mut)?$', lambda *a: X.Ref(self.pc)),
            (r'OccupiedEntry::<.*PendingOutboundPayment.*>::remove$', lambda E_, m, func, argv, guard, *a: (self.removed.append(X.zbool(guard)), X.Opaque('removed payment'))[1]),
            (r'VacantEntry::<.*PendingOutboundPayment.*>::insert$', lambda E_, m, func, argv, guard, *a: (self.inserted.append((X.zbool(guard), argv[1])), X.Ref(self.pc))[1]),
            (r'VecDeque::<\(.*Event, .*\)>::push_back$', h_push),
            (r'hashbrown_tables::new_hash_set$|new_hash_set::<', lambda *a: X.I(0, 'usize')),
            (r'HashSet::<\[u8; 32\].*>::remove::<', h_set_remove),
            (r'HashSet::<\[u8; 32\].*>::len$', h_set_len),
            (r'HashSet::<u64.*>::insert$|Vec::<u64>::push$', lambda *a: X.B(True)),
            (r'^Option::<(?:EventCompletionAction|PaymentCompleteUpdate)>::take$', h_take),
            (r'copy_from_slice$', lambda *a: X.UNIT),
            (r'SecretKey as (?:std::ops::)?Index<.*>>::index$', lambda *a: X.Opaque('key bytes')),
            (r'(?:Sha256|sha256::Hash).*::hash$', lambda *a: X.Opaque('hash')),
            (r'to_byte_array$', lambda *a: X.Opaque('hash bytes')),
            (r'HTLCFailReason::decode_onion_failure::<', lambda E_, m, func, argv, guard, mem_, dty, caller: E.sym('decoded_failure', dty, mem_)),
            (r'(?:^|::)payment_is_probe$', lambda *a: X.B(self.is_probe)),
            (r'Retry::is_retryable_now$', lambda *a: X.B(z3.Bool('retry_policy.allows_retry'))),
            (r'PaymentAttempts::new$', lambda *a: X.Opaque('attempt counter')),
            (r'hash_map::Iter<.*PendingOutboundPayment> as Iterator>::any::<', lambda *a: X.B(self.awaiting_retry_elsewhere)),
            (r'HashMap::<PaymentId, PendingOutboundPayment.*>::iter$', lambda *a: X.Opaque('payments iter')),
            (r'Path::final_value_msat$', lambda *a: E.sym('path.final_value_msat', 'u64')),
            (r'Path::fee_msat$', lambda *a: E.sym('path.fee_msat', 'u64')),
            (r'as Clone>::clone$', lambda E_, m, func, argv, guard, mem_, dty, caller: setval(argv[0], mem_)),
            (r'PendingOutboundPayment::insert_previously_failed_(?:scid|blinded_path)$', lambda *a: X.UNIT),
        ]:
            E.models.insert(0, (re.compile(rx), h))

    def state(self):
        """(variant index, in-flight count) of the entry after the call"""
        v = self.mem[self.pc]
        d = X.zint(v.d)
        cnt = None
        for nm in SETV:
            vi = self.POP[nm]
            k = self.fields[nm].index('session_privs')
            try:
                c = self.E.en_payload(v, nm, vi, k, 'usize', self.mem, 'spec')
            except X.Unsupported:
                continue
            if isinstance(c, X.I):
                cnt = c.t if cnt is None else z3.If(d == vi, c.t, cnt)
        return d, (cnt if cnt is not None else z3.IntVal(0))

    def pushed(self, name):
        """[(guard, event value)] of the pushes of Event::name"""
        vi = self.EVV[name]
        out = []
        for g, tup in self.events:
            evv = self.E.read_path(tup, (('f', 0, 'Event'),), self.mem, True, 'spec')
            out.append((z3.And(g, X.zint(evv.d) == vi), evv, tup))
        return out

    def count(self, name):
        return z3.Sum([z3.If(g, 1, 0) for g, e, t in self.pushed(name)]) if self.events else z3.IntVal(0)


def args_for(E, f, mem, over):
    out = []
    for n, t in f.params:
        if n in over:
            out.append(over[n])
        elif t.startswith('&') or t == 'bool':
            out.append(E.sym('a%d' % n, t, mem))
        else:
            out.append(X.Opaque('arg%d' % n))
    return out


def battery_binding(claim):
    """replay binding shared by the C03 obligations: live nodes (oracle_tu payment_outcome_battery): payments that are
    claimed, failed by the recipient, sent twice under one id, abandoned and then claimed, failed then followed by a
    claimed one, a two-part payment whose first part fails while the second is still in flight (no terminal event
    yet), and a two-part send of which one part is committed with its monitor update in progress while the other fails
    at once and cannot be retried (no terminal event, still listed, id refused), restarts from an older ChannelManager
    (terminal event not yet handled: reported again; BOLT 12 invoice received but paid only afterwards: pending, refused); the payer's events are asserted at every step by the library's test utilities"""
    c = claim if z3.is_expr(claim) else X.zbool(claim)
    return Binding('payment_outcome_battery', [z3.IntVal(1)], [z3.If(c, 0, 1)], parse=lambda t: [0 if t[0] == '0' else 1], line_fn=lambda v: '1',
                   which='oracle_tu', via_solver=True, domain=[(1, 1)], panic=False)


def prove(S, oid, E, pre, claim, desc, **kw):
    # claims are about executions that do not trip a debug assertion: fail_htlc asserts what it expects of the decoded
    # onion failure (a failure inside a blinded path comes with a blinded tail and without a channel id)
    return S.prove(oid, E, pre, claim, desc, [battery_binding(claim)], given_no_panic=True, **kw)


def methods(S, D):
    """C03.m: the two PendingOutboundPayment methods the obligations above use through summaries, against their MIR, one
    run per variant."""
    for variant in SETV + NOSET:
        tag = 'C03.m.%s' % variant.lower()
        ids = [tag + '.remaining_parts', tag + '.remove']
        if all(S._skip(o) for o in ids):
            continue
        V = Env(S, D, variant, summaries=False)
        E, mem = V.E, V.mem
        f = S.fn('remaining_parts', first_param='PendingOutboundPayment')
        rv = S.call(E, f, [X.Ref(V.pc)], mem)
        S.prove(ids[0], E, [], rv.t == (V.parts0.t if variant in SETV else 0), 'remaining_parts is the size of the in-flight set (0 for payments that have not been sent yet)', [])
        if variant in NOSET:
            continue          # remove() on a payment that was never sent trips a debug assertion: not a state it is called in
        V2 = Env(S, D, variant, summaries=False)
        E2, mem2 = V2.E, V2.mem
        f2 = S.fn('remove', first_param='PendingOutboundPayment')
        pth = E2.sym('path', 'std::option::Option<&Path>', mem2)
        rv2 = S.call(E2, f2, [X.Ref(V2.pc), E2.sym('key', '&[u8; 32]', mem2), pth], mem2)
        d2, cnt2 = V2.state()
        if variant in SETV:
            claim = z3.And(X.zbool(rv2.t) == V2.was_present, cnt2 == V2.parts0.t - z3.If(V2.was_present, 1, 0), d2 == V2.POP[variant])
        else:
            claim = z3.And(z3.Not(X.zbool(rv2.t)), d2 == V2.POP[variant])
        S.prove(ids[1], E2, [V2.parts0.t >= 0], claim, 'remove reports whether the HTLC was in flight, takes it out of the in-flight set iff it was, and never changes the kind of state', [], given_no_panic=True)


def run(S):
    D = S.decls()
    methods(S, D)
    claims(S, D)
    failures(S, D)
    abandon(S, D)
    startup_replay(S, D)
    partial_send_failure(S, D)
    duplicate_id(S, D)


def claims(S, D):
    """C03.a claim_htlc"""
    for variant in SETV:
        tag = 'C03.a.%s' % variant.lower()
        ids = [tag + s for s in ('.sent_exactly_once', '.path_success', '.nopanic', '.witness')]
        if all(S._skip(o) for o in ids):
            continue
        V = Env(S, D, variant)
        E, mem = V.E, V.mem
        f = S.fn('claim_htlc', first_param='OutboundPayments')
        onchain = z3.Bool('from_onchain')
        over = {}
        for n, t in f.params:
            if t == 'bool':
                over[n] = X.B(onchain)
        S.call(E, f, args_for(E, f, mem, over), mem)
        d2, cnt2 = V.state()
        POP = V.POP
        was_fulfilled = z3.BoolVal(variant == 'Fulfilled')
        sent = V.count('PaymentSent')
        succ = V.count('PaymentPathSuccessful')
        failed = V.count('PaymentFailed')
        prove(S, ids[0], E, [], z3.And(sent == z3.If(z3.And(V.occupied, z3.Not(was_fulfilled)), 1, 0), failed == 0,
                                       z3.Implies(V.occupied, d2 == POP['Fulfilled']), z3.Not(z3.Or(*V.removed)) if V.removed else True),
              'a claimed HTLC makes the payment Fulfilled and queues PaymentSent exactly when the payment was not already fulfilled - never twice, never for an unknown payment id, and never together with PaymentFailed; the entry stays (it is still tracked until its HTLCs are resolved)',
              bounds='entry in state %s with arbitrary fields and any number of HTLCs in flight, or absent' % variant)
        prove(S, ids[1], E, [], z3.And(succ == z3.If(z3.And(V.occupied, onchain, V.was_present), 1, 0),
                                       z3.Implies(V.occupied, cnt2 == V.parts0.t - z3.If(z3.And(onchain, V.was_present), 1, 0))),
              'PaymentPathSuccessful is queued by claim_htlc only for an on-chain claim of an HTLC that was still in flight, which is then no longer counted in flight')
        S.no_panic(ids[2], E, [], 'no panic (amount bookkeeping of Retryable entries: see C03.b)', only=lambda p: 'overflow' not in p[1])
        S.witness(ids[3], E, [V.occupied], sent == (0 if variant == 'Fulfilled' else 1))


def failures(S, D):
    """C03.b fail_htlc"""
    for variant in SETV:
        tag = 'C03.b.%s' % variant.lower()
        ids = [tag + s for s in ('.duplicate_ignored', '.no_failure_after_success', '.terminal_event', '.order', '.witness')]
        if all(S._skip(o) for o in ids):
            continue
        V = Env(S, D, variant)
        E, mem = V.E, V.mem
        f = S.fn('fail_htlc', first_param='OutboundPayments')
        has_action = z3.Bool('completion_action_given')
        over = {}
        for n, t in f.params:
            if 'Option<PaymentCompleteUpdate>' in t:
                c = E.new_cell()
                mem[c] = X.En('Option', z3.If(has_action, 1, 0), {1: [X.Opaque('completion action')]})
                over[n] = X.Ref(c)
        # the amounts a Retryable entry tracks cover its in-flight HTLCs (invariant of insert / remove)
        S.call(E, f, args_for(E, f, mem, over), mem)
        d2, cnt2 = V.state()
        POP = V.POP
        n_path = V.count('PaymentPathFailed')
        n_probe = V.count('ProbeSuccessful') + V.count('ProbeFailed')
        n_failed = V.count('PaymentFailed')
        n_sent = V.count('PaymentSent')
        n_all = z3.Sum([z3.If(g, 1, 0) for g, t in V.events]) if V.events else z3.IntVal(0)
        removed = z3.Or(*V.removed) if V.removed else z3.BoolVal(False)
        live = z3.And(V.occupied, V.was_present)
        fulfilled = z3.BoolVal(variant == 'Fulfilled')
        pre = [V.parts0.t >= 0, V.parts0.t < 1 << 20]
        prove(S, ids[0], E, pre, z3.Implies(z3.Not(live), z3.And(n_all == 0, z3.Not(removed), d2 == POP[variant])),
              'a failure for an unknown payment id or for an HTLC that is no longer in flight (a duplicate) queues nothing and changes nothing',
              bounds='entry in state %s with arbitrary fields, or absent; decoded onion failure, probe test and retry policy free' % variant)
        prove(S, ids[1], E, pre, z3.And(n_sent == 0, z3.Implies(fulfilled, z3.And(n_all == 0, z3.Not(removed), d2 == POP['Fulfilled']))),
              'a payment that was fulfilled is never reported failed (no PaymentFailed, not even PaymentPathFailed) when one of its remaining HTLCs fails, and fail_htlc never reports success')
        ends = z3.And(live, z3.Not(fulfilled), cnt2 == 0, d2 == POP['Abandoned'])
        prove(S, ids[2], E, pre, z3.And(
            z3.Implies(z3.And(live, z3.Not(fulfilled)), n_path + n_probe == 1),
            n_failed == z3.If(z3.And(ends, z3.Not(V.is_probe)), 1, 0), n_failed <= 1,
            removed == ends,
            z3.Implies(z3.And(live, z3.Not(fulfilled)), cnt2 == V.parts0.t - 1)),
            'a failed in-flight HTLC is reported once (PaymentPathFailed, or the probe result for a probe); PaymentFailed is queued exactly when that was the last HTLC of a payment that is (now) abandoned - at most once - and the entry is dropped then and only then, so neither a second terminal event nor a later success can follow')
        import os
        if os.environ.get('C03_DEBUG'):
            for k_, c_ in (('path', z3.Implies(z3.And(live, z3.Not(fulfilled)), n_path + n_probe == 1)), ('nfailed', n_failed == z3.If(z3.And(ends, z3.Not(V.is_probe)), 1, 0)),
                           ('removed', removed == ends), ('cnt', z3.Implies(z3.And(live, z3.Not(fulfilled)), cnt2 == V.parts0.t - 1))):
                S.prove(ids[2] + '.dbg.' + k_, E, pre, c_, k_, [])
        if V.events:
            # PaymentFailed, when queued, is the LAST event of the call and carries the completion action
            fails = V.pushed('PaymentFailed')
            order = []
            for i, (g, e, t) in enumerate(fails):
                order.append(z3.Implies(g, z3.Not(z3.Or(*[g2 for (g2, t2) in V.events[i + 1:]])) if V.events[i + 1:] else True))
                act = E.read_path(t, (('f', 1, 'Option'),), mem, True, 'spec')
                order.append(z3.Implies(g, (X.zint(act.d) == 1) == has_action))
            prove(S, ids[3], E, pre, z3.And(*order), 'PaymentFailed follows the path failure it completes and carries the pending completion action (so the monitor update that lets the HTLC be forgotten is released by the terminal event)')
        S.witness(ids[4], E, pre + [live, z3.Not(V.is_probe)], n_path == (0 if variant == 'Fulfilled' else 1))


def abandon(S, D):
    """C03.c abandon_payment"""
    for variant in SETV + ('AwaitingInvoice', 'InvoiceReceived'):
        tag = 'C03.c.%s' % variant.lower()
        ids = [tag + s for s in ('.abandon', '.nopanic', '.witness')]
        if all(S._skip(o) for o in ids):
            continue
        V = Env(S, D, variant)
        E, mem = V.E, V.mem
        f = S.fn('abandon_payment', first_param='OutboundPayments')
        S.call(E, f, args_for(E, f, mem, {}), mem)
        d2, cnt2 = V.state()
        POP = V.POP
        n_failed = V.count('PaymentFailed')
        n_all = z3.Sum([z3.If(g, 1, 0) for g, t in V.events]) if V.events else z3.IntVal(0)
        removed = z3.Or(*V.removed) if V.removed else z3.BoolVal(False)
        becomes_abandoned = variant in ('Retryable', 'InvoiceReceived', 'StaticInvoiceReceived', 'Abandoned')
        no_htlcs = (V.parts0.t == 0) if variant in SETV else z3.BoolVal(True)
        terminal = z3.And(V.occupied, z3.BoolVal(becomes_abandoned or variant in ('AwaitingInvoice', 'AwaitingOffer')), no_htlcs)
        exp_state = POP['Abandoned'] if becomes_abandoned else POP[variant]
        prove(S, ids[0], E, [V.parts0.t >= 0], z3.And(n_failed == z3.If(terminal, 1, 0), n_all == n_failed, removed == terminal,
                                                      z3.Implies(z3.And(V.occupied, z3.Not(terminal)), z3.And(d2 == exp_state, cnt2 == (V.parts0.t if variant in SETV else 0)))),
              'abandoning a payment reports PaymentFailed at once only if no HTLC of it is in flight (and drops the entry); otherwise the payment is marked abandoned and keeps its in-flight HTLCs (the terminal event follows their resolution: C03.b); a fulfilled payment stays fulfilled and is never reported failed',
              bounds='entry in state %s with arbitrary fields, or absent' % variant)
        S.no_panic(ids[1], E, [V.parts0.t >= 0], 'total')
        S.witness(ids[2], E, [V.occupied, V.parts0.t >= 0], z3.BoolVal(True))


def duplicate_id(S, D):
    """C03.d add_new_pending_payment: a payment id in use is refused"""
    ids = ['C03.d.duplicate_refused', 'C03.d.witness']
    if all(S._skip(o) for o in ids):
        return
    V = Env(S, D, 'Retryable')
    E, mem = V.E, V.mem
    f = S.fn('add_new_pending_payment', first_param='OutboundPayments')
    made = []
    E.models.insert(0, (re.compile(r'OutboundPayments::create_pending_payment::<'), lambda E_, m, func, argv, guard, *a: (made.append(X.zbool(guard)), X.Tup([X.Opaque('new payment'), X.Opaque('onion session privs')]))[1]))
    rv = S.call(E, f, args_for(E, f, mem, {}), mem)
    is_err = X.zint(rv.d) == 1
    inserted = z3.Or(*[g for g, v in V.inserted]) if V.inserted else z3.BoolVal(False)
    prove(S, ids[0], E, [], z3.And(is_err == V.occupied, inserted == z3.Not(V.occupied), z3.Implies(V.occupied, z3.And(X.zint(mem[V.pc].d) == V.POP['Retryable'], z3.Not(z3.Or(*made)) if made else True))),
          'a send under a payment id that is still tracked is refused and leaves the tracked payment untouched; a fresh id is accepted and starts being tracked')
    S.witness(ids[1], E, [V.occupied], is_err)
    S.validate('C03.validate', E, battery_binding(z3.BoolVal(True)), n=1, extra_vectors=[(1,)])


def startup_replay(S, D):
    """C03.e insert_from_monitor_on_startup: an HTLC found in a ChannelMonitor at start-up is tracked again by the payer's
    bookkeeping, whatever (possibly older) state the persisted entry is in."""
    for variant in SETV + NOSET + ('vacant',):
        tag = 'C03.e.%s' % variant.lower()
        ids = [tag + '.htlc_tracked', tag + '.witness', tag + '.nopanic']
        if all(S._skip(o) for o in ids):
            continue
        V = Env(S, D, 'Retryable' if variant == 'vacant' else variant, summaries=False)
        E, mem = V.E, V.mem
        f = S.fn('insert_from_monitor_on_startup', first_param='OutboundPayments')
        newly = z3.Bool('htlc.newly_inserted')
        E.models.insert(0, (re.compile(r'HashSet::<\[u8; 32\].*>::insert$'), lambda E_, m, func, argv, guard, mem_, dty, caller: _set_insert(V, E, argv, guard, mem_, newly)))
        E.models.insert(0, (re.compile(r'hash_set_from_iter::<'), lambda *a: X.I(1, 'usize')))
        if variant == 'vacant':
            E.assume(z3.Not(V.occupied))
        else:
            E.assume(V.occupied)
        S.call(E, f, args_for(E, f, mem, {}), mem)
        POP = V.POP
        if variant == 'vacant':
            ins = V.inserted
            ok = z3.And(z3.Or(*[g for g, v in ins]) if ins else False, *[z3.Implies(g, z3.And(X.zint(v.d) == POP['Retryable'])) for g, v in ins])
            claim = ok
            desc = 'an HTLC of an unknown payment starts a new tracked payment (Retryable, holding exactly that HTLC)'
        else:
            d2, cnt2 = V.state()
            if variant in NOSET:
                claim = z3.And(d2 == POP['Retryable'], cnt2 == 1)
                desc = 'a payment that the persisted manager still shows as not yet sent (awaiting / holding an invoice) but whose HTLC is in a monitor is moved to Retryable holding that HTLC - so it is neither paid twice nor forgotten'
            elif variant in ('Legacy', 'Retryable'):
                claim = z3.And(d2 == POP[variant], cnt2 == V.parts0.t + z3.If(newly, 1, 0))
                desc = 'the HTLC joins the in-flight set of a payment that is being sent (unless it is already there)'
            else:
                claim = z3.And(d2 == POP[variant], cnt2 == V.parts0.t)
                desc = 'a payment that already reached its outcome (fulfilled / abandoned) is left as it is'
        S.prove(ids[0], E, [V.parts0.t >= 0], claim, desc, [battery_binding(claim)], given_no_panic=True, bounds='entry %s, arbitrary fields' % variant)
        S.no_panic(tag + '.nopanic', E, [V.parts0.t >= 0, V.parts0.t < 1 << 20], 'no debug assertion is tripped: the entry\'s state is one the chosen branch can handle (insert() must not be asked to add an HTLC to a payment that has not been sent)', [battery_binding(z3.BoolVal(False))], only=lambda p: 'overflow' not in p[1])
        S.witness(ids[1], E, [V.parts0.t >= 0], z3.BoolVal(True))


def _set_insert(V, E, argv, guard, mem_, newly):
    r_ = argv[0]
    cur = r_
    while isinstance(cur, X.Ref):
        cur = E.read_path(mem_[cur.cell], cur.path, mem_, True, 'set')
    if not isinstance(cur, X.I):
        raise X.Unsupported('in-flight set is %r' % (cur,))
    mem_[r_.cell] = E.write_path(mem_[r_.cell], r_.path, X.I(z3.If(newly, cur.t + 1, cur.t), 'usize'), mem_, guard, 'insert')
    return X.B(newly)


def partial_send_failure(S, D):
    """C03.f: which parts handle_pay_route_err forgets after a partially failed send: the filter closure."""
    ids = ['C03.f.only_unsent_parts_forgotten', 'C03.f.witness']
    if all(S._skip(o) for o in ids):
        return
    ix = S.mir()
    c = [i for i in range(len(ix.offsets)) if re.search(r'::handle_pay_route_err::<.*>::\{closure#\d+\}\(|::handle_pay_route_err::\{closure#\d+\}\(', ix.offsets[i][0]) and 'APIError' in ix.offsets[i][0] and 'Option<' in ix.offsets[i][0]]
    if len(c) != 1:
        raise X.Unsupported('handle_pay_route_err: %d closures choosing the parts to forget' % len(c))
    f = ix.get(c[0])
    E = S.engine(unwind=1)
    mem = {}
    AE = lambda n: D.variant_index('APIError', n)
    is_err = z3.Bool('part.send_failed')
    kind = E.sym('part.error_kind', 'u8')
    nvar = len(D.enum_variants('APIError'))
    E.assume(z3.And(kind.t >= 0, kind.t < nvar))
    res_c = E.new_cell()
    mem[res_c] = X.En('Result', z3.If(is_err, 1, 0), {0: [X.UNIT], 1: [X.En('APIError', kind.t, {}, base='api_error')]})
    env = E.new_cell()
    mem[env] = X.Clo(re.search(r'\{closure@[^{}]*\}', f.params[0][1]).group(0), [])
    arg = X.Tup([X.Ref(res_c), X.Tup([X.Opaque('path'), X.Opaque('session priv')])])
    rv = S.call(E, f, [X.Ref(env), arg], mem)
    forgotten = X.zint(rv.d) == 1
    claim = forgotten == z3.And(is_err, kind.t != AE('MonitorUpdateInProgress'))
    S.prove(ids[0], E, [], claim,
            'after a partially failed multi-part send the payment forgets exactly the parts whose send failed outright; a part whose send reports "monitor update in progress" WAS committed and stays in flight (otherwise the payment could be reported failed, and its id reused, while an HTLC is pending)', [battery_binding(claim)],
            bounds='the filter closure of handle_pay_route_err on an arbitrary per-part send result')
    S.witness(ids[1], E, [is_err], forgotten)
