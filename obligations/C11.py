"""C11 — on-chain conclusions depend only on the chain: anti-reorg confirmation thresholds (engine M)
and the BlockLocator ring (engine K, see harness/src/c11.rs)."""
import z3
from engine_m import exec as X
from engine_m.session import Binding, Inconclusive
from .common import *

ANTI_REORG_DELAY = 6

EVIDENCE = dict(assumptions=[
    'kernel only: OnchainEventEntry::confirmation_threshold / has_reached_confirmation_threshold of channelmonitor.rs and onchaintx.rs, 1 <= confirmation height < 2^31 (height 0 with a zero CSV underflows `height + csv - 1`; no transaction confirms in the genesis block)',
    'C11.c: the per-entry decisions of ChannelMonitor reorg handling (retain closure of blocks_disconnected, funding-spend finality closure of get_onchain_failed_outbound_htlcs) as closures over one queue entry; the captured monitor state is a lazily symbolic struct',
    'equivalence of block-delivery styles, the rest of blocks_disconnected (claim regeneration, OnchainTxHandler) and multi-step reorg histories are outside the claim'])


def panic_of(E):
    return z3.Or(*[X.zbool(p[0]) for p in E.panics]) if E.panics else False


def run(S):
    D = S.decls()
    thresholds(S, D)
    monitor_closures(S, D)
    late_claim_height(S, D)
    preimage_claim_height(S, D)
    try:
        from engine_k import runner as K
        K.run_property(S, 'C11')
    except ImportError:
        pass


def thresholds(S, D):
    # ---- channelmonitor.rs -------------------------------------------------------------
    E = S.engine()
    mem = {}
    f = S.fn('confirmation_threshold', contains='channelmonitor.rs')
    fr = S.fn('has_reached_confirmation_threshold', contains='channelmonitor.rs')
    entry = E.sym('e', f.params[0][1], mem)
    thr = S.call(E, f, [entry], mem)
    ev = mem[entry.cell]
    hidx = D.field_index('OnchainEventEntry', 'height', hint='channelmonitor')
    eidx = D.field_index('OnchainEventEntry', 'event', hint='channelmonitor')
    height = E.read_path(ev, (('f', hidx, 'u32'),), mem, True, 'spec').t
    pre = [height < (1 << 31), height >= 1]   # a transaction never confirms in the genesis block
    # locate the event enum value the code looked at
    evt = None
    for k, v in (ev.fs.items() if isinstance(ev, X.Adt) else []):
        pass
    evt = E.sym('e.*.%d' % eidx, 'chain::channelmonitor::OnchainEvent', mem)
    V = lambda n: D.variant_index('OnchainEvent', n, hint='channelmonitor')
    kind = X.zint(evt.d)

    def pl(variant, k, ty):
        return E.read_path(evt, (('v', variant), ('f', k, ty)), mem, True, 'spec')
    FS = D.enum_variants('OnchainEvent', hint='channelmonitor')
    fs_fields = [v for v in FS if v[0] == 'FundingSpendConfirmation'][0][2]
    hs_fields = [v for v in FS if v[0] == 'HTLCSpendConfirmation'][0][2]
    fs_csv = pl('FundingSpendConfirmation', fs_fields.index('on_local_output_csv'), 'Option<u16>')
    hs_csv = pl('HTLCSpendConfirmation', hs_fields.index('on_to_local_output_csv'), 'Option<u16>')
    desc = pl('MaturingOutput', 0, 'sign::SpendableOutputDescriptor')
    d_is_delayed = X.zint(desc.d) == D.variant_index('SpendableOutputDescriptor', 'DelayedPaymentOutput')
    dp = E.read_path(desc, (('v', 'DelayedPaymentOutput'), ('f', 0, 'sign::DelayedPaymentOutputDescriptor')), mem, True, 'spec')
    to_self_delay = field(E, D, 'DelayedPaymentOutputDescriptor', 'to_self_delay', dp, 'u16').t
    csv = z3.If(z3.And(kind == V('MaturingOutput'), d_is_delayed), to_self_delay,
          z3.If(z3.And(kind == V('FundingSpendConfirmation'), X.zint(fs_csv.d) == 1), fs_csv.vs[1][0].t,
          z3.If(z3.And(kind == V('HTLCSpendConfirmation'), X.zint(hs_csv.d) == 1), hs_csv.vs[1][0].t, -1)))
    has_csv = csv >= 0
    base = height + ANTI_REORG_DELAY - 1
    spec = z3.If(z3.And(has_csv, height + csv - 1 > base), height + csv - 1, base)
    # oracle: kind 0 maturing-delayed, 1 funding spend, 2 htlc spend, 3 other
    okind, ocsv_d, ocsv_v, best = z3.Int('o.kind'), z3.Int('o.csv_d'), z3.Int('o.csv_v'), E.sym('best', 'u32')
    E.assume(okind == z3.If(z3.And(kind == V('MaturingOutput'), d_is_delayed), 0, z3.If(kind == V('FundingSpendConfirmation'), 1, z3.If(kind == V('HTLCSpendConfirmation'), 2, 3))))
    E.assume(ocsv_d == z3.If(has_csv, 1, 0))
    E.assume(ocsv_v == z3.If(has_csv, csv, 0))
    # run has_reached on the same entry with a symbolic best block
    bl = E.sym('bl', fr.params[1][1], mem)
    reached = S.call(E, fr, [entry, bl], mem)
    blv = mem[bl.cell]
    best_h = field(E, D, 'BlockLocator', 'height', blv, 'u32').t
    E.assume(best.t == best_h)
    b = Binding('monitor_event_threshold', [okind, height, ocsv_d, ocsv_v, best.t], [thr.t, reached.t], panic=panic_of(E))
    maturing_other = z3.And(kind == V('MaturingOutput'), z3.Not(d_is_delayed))
    pre2 = pre + [z3.Not(maturing_other), z3.Or(kind != V('MaturingOutput'), True)]
    S.prove('C11.b.monitor_threshold', E, pre, thr.t == spec,
            'monitor on-chain events mature at max(height + ANTI_REORG_DELAY - 1, height + csv - 1) for CSV-encumbered outputs and at height + 5 otherwise',
            [b], bounds='heights < 2^31, all u16 CSV delays, all event kinds')
    S.prove('C11.b.monitor_reached', E, pre, X.zbool(reached.t) == (best_h >= spec),
            'an on-chain conclusion becomes irreversible exactly when the best height reaches the threshold: never before ANTI_REORG_DELAY confirmations nor before a CSV output is spendable',
            [b])
    S.prove('C11.b.monitor_min_depth', E, pre, z3.Implies(X.zbool(reached.t), best_h - height + 1 >= ANTI_REORG_DELAY),
            'no irreversible conclusion with fewer than ANTI_REORG_DELAY confirmations', [b])
    S.no_panic('C11.b.monitor_nopanic', E, pre, 'no overflow for heights < 2^31', [b])
    S.witness('C11.b.monitor_witness', E, pre + [has_csv, csv > 10], reached.t)

    # ---- onchaintx.rs --------------------------------------------------------------------
    E = S.engine()
    mem = {}
    f = S.fn('confirmation_threshold', contains='onchaintx.rs')
    fr = S.fn('has_reached_confirmation_threshold', contains='onchaintx.rs')
    entry = E.sym('e', f.params[0][1], mem)
    thr = S.call(E, f, [entry], mem)
    hh = E.sym('best', 'u32')
    reached = S.call(E, fr, [entry, hh], mem)
    hidx = D.field_index('OnchainEventEntry', 'height', hint='onchaintx')
    height = E.read_path(mem[entry.cell], (('f', hidx, 'u32'),), mem, True, 'spec').t
    pre = [height < (1 << 31)]
    b = Binding('onchaintx_event_threshold', [height, hh.t], [thr.t, reached.t], panic=panic_of(E), domain=[(0, U32), (0, U32)])
    S.validate('C11.b.onchaintx.validate', E, b)
    S.prove('C11.b.onchaintx_threshold', E, pre, z3.And(thr.t == height + ANTI_REORG_DELAY - 1, X.zbool(reached.t) == (hh.t >= height + ANTI_REORG_DELAY - 1)),
            'claim-tracking events mature exactly at height + ANTI_REORG_DELAY - 1', [b], bounds='heights < 2^31')
    S.no_panic('C11.b.onchaintx_nopanic', E, pre, 'no overflow for heights < 2^31', [b])


def _find_fn(S, rx):
    import re
    ix = S.mir()
    c = [i for i in range(len(ix.offsets)) if re.search(rx, ix.offsets[i][0])]
    if len(c) != 1:
        raise Inconclusive('%d functions match %s' % (len(c), rx))
    return ix.get(c[0])


def monitor_closures(S, D):
    """C11.c: the two per-entry decisions of ChannelMonitor reorg handling, each decided for every entry of a
    queue of any length (the closures are what `retain` / `find_map` apply to each element):
      * blocks_disconnected keeps an awaiting on-chain event iff its block is still part of the chain
        (entry.height <= fork-point height);
      * get_onchain_failed_outbound_htlcs treats the funding spend as final only once it has
        ANTI_REORG_DELAY confirmations (entry.height + 5 <= best height), and only a FundingSpendConfirmation.
    Replayed on a live monitor: force-closed channel with a pending dust HTLC, blocks connected / disconnected."""
    import re
    if all(S._skip(o) for o in ('C11.e.retain_iff_still_in_chain', 'C11.e.nopanic', 'C11.e.witness', 'C11.e.validate', 'C11.c.retain_iff_still_in_chain', 'C11.c.funding_spend_final_after_delay', 'C11.c.other_events_ignored', 'C11.c.nopanic', 'C11.c.witness', 'C11.c.validate', 'C11.c.validate2', 'C11.c.nopanic2', 'C11.c.witness2')):
        return
    key = lambda fn: re.search(r'\{closure@[^}]*\}', fn.params[0][1]).group(0)
    hidx = D.field_index('OnchainEventEntry', 'height', hint='channelmonitor')
    eidx = D.field_index('OnchainEventEntry', 'event', hint='channelmonitor')
    # ---- retain closure of blocks_disconnected -------------------------------------------
    f1 = _find_fn(S, r'channelmonitor\.rs[^>]*>::blocks_disconnected::\{closure#0\}\(_1: &mut \{closure@[^}]*\}, _2: &(?:\w+::)*OnchainEventEntry\)')
    E = S.engine()
    mem = {}
    nh = E.sym('new_height', 'u32')
    cn = E.new_cell()
    mem[cn] = nh
    cc = E.new_cell()
    mem[cc] = X.Clo(key(f1), [X.Ref(cn)])
    entry = E.sym('e', f1.params[1][1], mem)
    keep = X.zbool(S.call(E, f1, [X.Ref(cc), entry], mem).t)
    h = E.read_path(mem[entry.cell], (('f', hidx, 'u32'),), mem, True, 'spec').t

    def line1(v):
        hv, nv = v
        r = max(-1, min(3, nv - hv))          # the live scenario realises fork points H-1 .. H+3
        return '0 %d 1 0' % (r + 1)
    b1 = Binding('monitor_reorg_probe', [h, nh.t], [None, z3.If(keep, 1, 0), None, None], line_fn=line1, which='oracle_tu', panic=panic_of(E))
    S.prove('C11.c.retain_iff_still_in_chain', E, [], keep == (h <= nh.t),
            'when blocks are disconnected down to a fork point, an on-chain event awaiting confirmations is kept iff the block it was seen in is still part of the chain (height <= fork-point height) - an event in the fork-point block itself survives, one above it is retracted',
            [b1], bounds='every entry of the queue (any length), all u32 heights')
    S.no_panic('C11.c.nopanic', E, [], 'total', [b1])
    S.witness('C11.c.witness', E, [h == nh.t], keep)
    S.validate('C11.c.validate', E, b1, n=12, extra_vectors=[(100, 99 + k) for k in range(6)])
    # ---- retain closure of best_block_updated (a reorg announced through the Confirm interface) ----
    if not all(S._skip(o) for o in ('C11.e.retain_iff_still_in_chain', 'C11.e.nopanic', 'C11.e.witness', 'C11.e.validate')):
        from .C10 import _closure_env
        f3 = _find_fn(S, r'channelmonitor\.rs[^>]*>::best_block_updated::<[^(]*>::\{closure#0\}\(_1: &mut \{closure@[^}]*\}, _2: &&(?:\w+::)*OnchainEventEntry\)|channelmonitor\.rs[^>]*>::best_block_updated::\{closure#0\}\(_1: &mut \{closure@[^}]*\}, _2: &&?(?:\w+::)*OnchainEventEntry\)')
        E3 = S.engine()
        mem3 = {}
        nh3 = E3.sym('new_tip_height', 'u32')
        cn3 = E3.new_cell()
        mem3[cn3] = nh3
        env3 = _closure_env(E3, f3, mem3, {'height': X.Ref(cn3)})
        entry3 = E3.sym('e', f3.params[1][1], mem3)
        keep3 = X.zbool(S.call(E3, f3, [env3, entry3], mem3).t)
        ev3 = entry3
        while isinstance(ev3, X.Ref):
            ev3 = E3.read_path(mem3[ev3.cell], ev3.path, mem3, True, 'spec')
        h3 = E3.read_path(ev3, (('f', hidx, 'u32'),), mem3, True, 'spec').t

        def line3(v):
            hv, nv = v
            r = max(-1, min(3, nv - hv))
            return '1 %d 1 0' % (r + 1)
        b3 = Binding('monitor_reorg_probe', [h3, nh3.t], [None, z3.If(keep3, 1, 0), None, None], line_fn=line3, which='oracle_tu', panic=panic_of(E3))
        S.prove('C11.e.retain_iff_still_in_chain', E3, [], keep3 == (h3 <= nh3.t),
                'when a reorganisation is announced through the Confirm interface (best_block_updated with a different block at a height not above the old tip), an on-chain event awaiting confirmations is kept iff the block it was seen in is at or below the new tip - the same rule as for blocks_disconnected, so the conclusion does not depend on how the chain was delivered',
                [b3], bounds='every entry of the queue (any length), all u32 heights')
        S.no_panic('C11.e.nopanic', E3, [], 'total', [b3])
        S.witness('C11.e.witness', E3, [h3 == nh3.t], keep3)
        S.validate('C11.e.validate', E3, b3, n=12, extra_vectors=[(100, 99 + k) for k in range(6)])
    # ---- funding-spend finality closure of get_onchain_failed_outbound_htlcs ---------------
    f2 = _find_fn(S, r'::get_onchain_failed_outbound_htlcs::\{closure#0\}::\{closure#0\}\(')
    E2 = S.engine()
    mem2 = {}
    us = E2.sym('us', '&chain::channelmonitor::ChannelMonitorImpl<Signer>', mem2)
    cg = E2.new_cell()
    mem2[cg] = us      # the MutexGuard the closure captured derefs to the monitor
    E2.models.insert(0, (re.compile(r'MutexGuard<.*> as (?:std::ops::)?Deref>::deref$'), lambda E_, m, func, argv, guard, mem_, dty, caller: mem_[cg]))
    c2 = E2.new_cell()
    mem2[c2] = X.Clo(key(f2), [X.Ref(cg)])
    entry2 = E2.sym('e', f2.params[1][1], mem2)
    rv2 = S.call(E2, f2, [X.Ref(c2), entry2], mem2)
    ret2 = S.ret_guard
    some = z3.And(ret2, X.zint(rv2.d) == 1)
    ev = mem2[entry2.cell]
    h2 = E2.read_path(ev, (('f', hidx, 'u32'),), mem2, True, 'spec').t
    kind = X.zint(E2.read_path(ev, (('f', eidx, 'chain::channelmonitor::OnchainEvent'),), mem2, True, 'spec').d)
    bb_idx = D.field_index('ChannelMonitorImpl', 'best_block')
    best = E2.read_path(mem2[us.cell], (('f', bb_idx, 'chain::BlockLocator'), ('f', D.field_index('BlockLocator', 'height'), 'u32')), mem2, True, 'spec').t
    FS = D.variant_index('OnchainEvent', 'FundingSpendConfirmation', hint='channelmonitor')
    pre2 = [h2 >= 1, h2 <= best, best < (1 << 31)]      # an awaiting entry was seen in a block at or below the best block

    def line2(v):
        hv, bv = v[0], v[1]
        d = max(0, min(8, bv - hv))
        return '0 %d 0 0' % d
    b2 = Binding('monitor_reorg_probe', [h2, best, kind], [None, None, None, z3.If(some, 1, 0)], line_fn=line2, which='oracle_tu', panic=panic_of(E2),
                 domain=[(1, 1 << 30), (1, 1 << 30), (FS, FS)])
    S.prove('C11.c.funding_spend_final_after_delay', E2, pre2 + [kind == FS], some == (h2 + ANTI_REORG_DELAY - 1 <= best),
            'HTLCs are reported as failed on chain only once the transaction that spent the funding output has ANTI_REORG_DELAY confirmations (seen at height h, final from best height h + 5 on) - never on a spend that a short reorg could still undo',
            [b2], bounds='every entry of the queue (any length), heights 1 .. 2^31')
    S.prove('C11.c.other_events_ignored', E2, pre2 + [kind != FS], z3.Not(some),
            'only a FundingSpendConfirmation entry can make the funding spend count as confirmed', [])
    S.no_panic('C11.c.nopanic2', E2, pre2, 'no overflow in height + ANTI_REORG_DELAY - 1', [b2])
    S.witness('C11.c.witness2', E2, pre2 + [kind == FS], some)
    S.validate('C11.c.validate2', E2, b2, n=10, extra_vectors=[(100, 100 + k, FS) for k in range(9)])


def preimage_claim_height(S, D):
    """C11.d: provide_payment_preimage looks for a funding spend that is still awaiting its confirmation threshold; the
    find_map closure it applies to every queue entry must hand on the HEIGHT at which that spend confirmed, because the
    claim built from it is dropped again only if that block is disconnected (claims are keyed by the confirmation height
    of their inputs)."""
    import re
    ids = ['C11.d.spend_height_recorded', 'C11.d.nopanic', 'C11.d.witness', 'C11.d.validate']
    if all(S._skip(o) for o in ids):
        return
    f = _find_fn(S, r'::provide_payment_preimage::\{closure#\d+\}::\{closure#0\}\(_1: &mut \{closure@[^}]*\}, _2: &(?:\w+::)*OnchainEventEntry\)')
    E = S.engine()
    mem = {}
    from .C10 import _closure_env
    env = _closure_env(E, f, mem, {})       # whatever the closure captures (nothing today) is a fresh symbolic value
    entry = E.sym('e', f.params[1][1], mem)
    rv = S.call(E, f, [env, entry], mem)
    hidx = D.field_index('OnchainEventEntry', 'height', hint='channelmonitor')
    eidx = D.field_index('OnchainEventEntry', 'event', hint='channelmonitor')
    ev = mem[entry.cell]
    h = E.read_path(ev, (('f', hidx, 'u32'),), mem, True, 'spec').t
    kind = X.zint(E.read_path(ev, (('f', eidx, 'chain::channelmonitor::OnchainEvent'),), mem, True, 'spec').d)
    FS = D.variant_index('OnchainEvent', 'FundingSpendConfirmation', hint='channelmonitor')
    some = X.zint(rv.d) == 1
    pair = E.en_payload(rv, 'Some', 1, 0, '(bitcoin::Txid, std::option::Option<u32>)', mem, 'spec')
    ho = E.read_path(pair, (('f', 1, 'std::option::Option<u32>'),), mem, True, 'spec')
    h_some = X.zint(ho.d) == 1
    try:
        h_val = E.en_payload(ho, 'Some', 1, 0, 'u32', mem, 'spec').t
        recorded = z3.And(some, h_some, h_val == h)
    except X.Unsupported:           # the height is a constant None on every path
        recorded = z3.BoolVal(False)
    # live replay: the commitment confirms at H, two more blocks, the preimage arrives, the last block is disconnected;
    # the claim spends an output created at H and must survive - it does iff H (and not 'now') was recorded
    b = Binding('preimage_after_conf_reorg_probe', [kind], [None, z3.If(recorded, 1, 0)], line_fn=lambda v: '2 1', which='oracle_tu', panic=panic_of(E), via_solver=True, domain=[(FS, FS)])
    S.prove(ids[0], E, [], z3.And(some == (kind == FS), z3.Implies(kind == FS, recorded)),
            'a preimage that arrives after the counterparty commitment confirmed (but before ANTI_REORG_DELAY) yields claims that remember the height of that confirmation: the entry found is a FundingSpendConfirmation and its own height is handed on - so that a reorg of that block retracts the claims',
            [b], bounds='every entry of the queue (any length), all u32 heights')
    S.no_panic(ids[1], E, [], 'total', [b])
    S.witness(ids[2], E, [kind == FS], some)
    S.validate(ids[3], E, b, n=1, extra_vectors=[(FS,)])


def late_claim_height(S, D):
    """C11.f: provide_payment_preimage on a monitor whose funding output is already spent on chain: the claims it creates
    spend outputs of the transaction that spent the funding output, so they must be registered at the height THAT
    transaction confirmed at - a claim is retracted exactly when the block it is registered at is disconnected
    (OnchainTxHandler::blocks_disconnected), and a claim registered at the current tip instead is lost in any reorg
    of the tip although its input is untouched. Region from the funding scope look-up to the end of the function."""
    import re
    ids = ['C11.f.claims_registered_at_spend_height', 'C11.f.witness.holder', 'C11.f.witness.counterparty']
    if all(S._skip(o) for o in ids):
        return
    f = S.fn('provide_payment_preimage', first_param='ChannelMonitorImpl')
    E = S.engine(unwind=1)
    mem = {}
    calls = lambda rx: [b for b, (bd, t) in f.blocks.items() if t[0] == 'call' and re.search(rx, t[2])]
    scope = calls(r'Option::<&(?:\w+::)*FundingScope>::unwrap_or$')
    if len(scope) != 1:
        raise X.Unsupported('provide_payment_preimage: %d funding-scope look-ups' % len(scope))
    start = f.blocks[scope[0]][1][4]
    dbg = {}
    for n, place in f.debug_all:
        dbg.setdefault(n, place)
    loc = lambda n: int(re.search(r'_(\d+)', str(dbg[n])).group(1))
    known = z3.Bool('funding_spend.still_awaiting_threshold')
    hspend = E.sym('funding_spend.height', 'u32')
    best = E.sym('best_block.height', 'u32')
    ARD = 6
    # the spend is in the best chain; once it has ANTI_REORG_DELAY confirmations the monitor forgets its height
    E.assume(z3.And(hspend.t >= 1, hspend.t <= best.t, known == (best.t < hspend.t + ARD - 1)))
    CM = D.struct_fields('ChannelMonitorImpl')
    BL = D.struct_fields('BlockLocator')
    self_c = E.new_cell()
    mem[self_c] = X.Adt('ChannelMonitorImpl', {CM.index('best_block'): X.Adt('BlockLocator', {BL.index('height'): best}, base='best_block')}, base='monitor')
    fs_c = E.new_cell()
    mem[fs_c] = X.Adt('FundingScope', {}, base='funding')
    holder_claims, counterparty_claims, registered = [], [], []

    def h_holder(E_, m, func, argv, guard, mem_, dty, caller):
        holder_claims.append((X.zbool(guard), argv[3]))
        return X.Tup([X.Opaque('holder claim requests'), X.Opaque('script')])

    def h_cp(E_, m, func, argv, guard, mem_, dty, caller):
        counterparty_claims.append((X.zbool(guard), argv[-1]))
        return X.Opaque('counterparty claim requests')

    def h_reg(E_, m, func, argv, guard, mem_, dty, caller):
        registered.append((X.zbool(guard), argv[2], argv[3]))
        return X.UNIT
    for rx, h in [
        (r'Txid as PartialEq>::eq$', lambda *a: X.B(z3.Bool('txid_eq!%d' % next(E.nfresh)))),
        (r'HashMap::<.*Txid, .*>::get::<', lambda *a: X.En('Option', E.sym('map_hit!%d' % next(E.nfresh), 'u8').t % 2, {1: [X.Opaque('map value')]})),
        (r'Option::<.*ScriptBuf.*>::is_some$', lambda *a: X.B(z3.Bool('holder_commitment_broadcast!%d' % next(E.nfresh)))),
        (r'HolderCommitmentTransaction::trust$', lambda *a: X.Opaque('trusted holder tx')),
        (r'TrustedCommitmentTransaction::<.*>::txid$|TrustedCommitmentTransaction<.*>::txid$', lambda *a: X.Opaque('txid')),
        (r'ChannelMonitorImpl::<.*>::get_broadcasted_holder_claims$', h_holder),
        (r'ChannelMonitorImpl::<.*>::get_counterparty_output_claims_for_preimage$', h_cp),
        (r'ChannelMonitorImpl::<.*>::closure_conf_target$', lambda *a: X.Opaque('conf target')),
        (r'OnchainTxHandler::<.*>::update_claims_view_from_requests::<', h_reg),
        (r'ScriptBuf as (?:std::ops::)?Deref>::deref$', lambda *a: X.Opaque('script')),
        (r'^format$|^must_use::<', lambda *a: X.Opaque('string')),
        (r'Arguments::<.*>::from_str$|Arguments::<.*>::new', lambda *a: X.Opaque('fmt args')),
        (r'Record::<.*>::new', lambda *a: X.Opaque('log record')),
        (r'Logger>::log$', lambda *a: X.UNIT),
        (r'^std::mem::drop::<|drop_in_place', lambda *a: X.UNIT),
    ]:
        E.models.insert(0, (re.compile(rx), h))
    init = {1: X.Ref(self_c), f.blocks[scope[0]][1][1][1]: X.Ref(fs_c),
            loc('confirmed_spend_height'): X.En('Option', z3.If(known, 1, 0), {1: [hspend]})}
    args = [X.Ref(self_c)] + [X.Opaque('arg%d' % i) for i in range(1, len(f.params))]
    runr = X.FnRun(E, f, args, True, mem)
    E.depth += 1
    runr.run(start_bb=start, init=init)
    E.depth -= 1
    limit = z3.If(known, hspend.t, best.t - (ARD - 1))         # the spend confirmed at or below this height
    conj = []
    for g, h in holder_claims:
        conj.append(z3.Implies(g, z3.And(X.zint(h.t) <= limit, z3.Implies(known, X.zint(h.t) == hspend.t))))
    for g, h in counterparty_claims:
        some = X.zint(h.d) == 1
        hv = h.vs[1][0] if isinstance(h, X.En) and 1 in h.vs else None
        conj.append(z3.Implies(g, z3.And(some == known, z3.Implies(some, X.zint(hv.t) == hspend.t) if hv is not None else z3.Not(some))))
    for g, conf, cur in registered:
        conj.append(z3.Implies(g, z3.And(X.zint(conf.t) <= limit, z3.Implies(known, X.zint(conf.t) == hspend.t), X.zint(cur.t) == best.t)))
    n_reg = z3.Sum([z3.If(g, 1, 0) for g, *_ in registered]) if registered else z3.IntVal(0)
    any_holder = z3.Or(*[g for g, h in holder_claims]) if holder_claims else z3.BoolVal(False)
    any_cp = z3.Or(*[g for g, h in counterparty_claims]) if counterparty_claims else z3.BoolVal(False)
    b = Binding('late_preimage_reorg_battery', [z3.IntVal(1)], [None], parse=lambda t: [0 if t[0] == '0' else 1], line_fn=lambda v: '1', which='oracle_tu', via_solver=True, domain=[(1, 1)], panic=False)
    claim = z3.And(*conj, n_reg <= 1)
    b.outs = [z3.If(claim, 0, 1)]
    S.prove(ids[0], E, [], claim,
            'a preimage that arrives after the funding output was spent on chain yields claims registered at the height the spending transaction confirmed at (its own height while the monitor still tracks it; no higher than tip - 5 once it is irrevocably confirmed), for the counterparty\'s commitment and for our own alike - so a reorganisation that leaves that transaction in place never makes the monitor forget the claim, and one that removes it retracts the claim',
            [b], given_no_panic=True, bounds='region of provide_payment_preimage from the funding-scope look-up to its end; which commitment confirmed, map look-ups and txid comparisons free; claim construction and registration recording stubs')
    S.witness(ids[1], E, [], any_holder)
    S.witness(ids[2], E, [], any_cp)
    S.validate('C11.f.validate', E, Binding('late_preimage_reorg_battery', [z3.IntVal(1)], [z3.IntVal(0)], parse=lambda t: [0 if t[0] == '0' else 1], line_fn=lambda v: '1', which='oracle_tu', via_solver=True, domain=[(1, 1)], panic=False), n=1, extra_vectors=[(1,)])
