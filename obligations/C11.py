"""C11 — on-chain conclusions depend only on the chain: anti-reorg confirmation thresholds (engine M)
and the BlockLocator ring (engine K, see harness/src/c11.rs)."""
import z3
from engine_m import exec as X
from engine_m.session import Binding, Inconclusive
from .common import *

ANTI_REORG_DELAY = 6

EVIDENCE = dict(assumptions=[
    'kernel only: OnchainEventEntry::confirmation_threshold / has_reached_confirmation_threshold of channelmonitor.rs and onchaintx.rs, 1 <= confirmation height < 2^31 (height 0 with a zero CSV underflows `height + csv - 1`; no transaction confirms in the genesis block)',
    'equivalence of block-delivery styles, retraction on blocks_disconnected and claim regeneration are history-quantified and outside the claim'])


def panic_of(E):
    return z3.Or(*[X.zbool(p[0]) for p in E.panics]) if E.panics else False


def run(S):
    D = S.decls()
    thresholds(S, D)
    try:
        from engine_k import runner as K
        K.run_property(S, 'C11')
    except ImportError:
        pass


def thresholds(S, D):
    # ---- channelmonitor.rs -------------------------------------------------------------
    E = S.engine()
    mem = {}
    f = S.fn('confirmation_threshold', contains='channelmonitor.rs')
    fr = S.fn('has_reached_confirmation_threshold', contains='channelmonitor.rs')
    entry = E.sym('e', f.params[0][1], mem)
    thr = S.call(E, f, [entry], mem)
    ev = mem[entry.cell]
    hidx = D.field_index('OnchainEventEntry', 'height', hint='channelmonitor')
    eidx = D.field_index('OnchainEventEntry', 'event', hint='channelmonitor')
    height = E.read_path(ev, (('f', hidx, 'u32'),), mem, True, 'spec').t
    pre = [height < (1 << 31), height >= 1]   # a transaction never confirms in the genesis block
    # locate the event enum value the code looked at
    evt = None
    for k, v in (ev.fs.items() if isinstance(ev, X.Adt) else []):
        pass
    evt = E.sym('e.*.%d' % eidx, 'chain::channelmonitor::OnchainEvent', mem)
    V = lambda n: D.variant_index('OnchainEvent', n, hint='channelmonitor')
    kind = X.zint(evt.d)

    def pl(variant, k, ty):
        return E.read_path(evt, (('v', variant), ('f', k, ty)), mem, True, 'spec')
    FS = D.enum_variants('OnchainEvent', hint='channelmonitor')
    fs_fields = [v for v in FS if v[0] == 'FundingSpendConfirmation'][0][2]
    hs_fields = [v for v in FS if v[0] == 'HTLCSpendConfirmation'][0][2]
    fs_csv = pl('FundingSpendConfirmation', fs_fields.index('on_local_output_csv'), 'Option<u16>')
    hs_csv = pl('HTLCSpendConfirmation', hs_fields.index('on_to_local_output_csv'), 'Option<u16>')
    desc = pl('MaturingOutput', 0, 'sign::SpendableOutputDescriptor')
    d_is_delayed = X.zint(desc.d) == D.variant_index('SpendableOutputDescriptor', 'DelayedPaymentOutput')
    dp = E.read_path(desc, (('v', 'DelayedPaymentOutput'), ('f', 0, 'sign::DelayedPaymentOutputDescriptor')), mem, True, 'spec')
    to_self_delay = field(E, D, 'DelayedPaymentOutputDescriptor', 'to_self_delay', dp, 'u16').t
    csv = z3.If(z3.And(kind == V('MaturingOutput'), d_is_delayed), to_self_delay,
          z3.If(z3.And(kind == V('FundingSpendConfirmation'), X.zint(fs_csv.d) == 1), fs_csv.vs[1][0].t,
          z3.If(z3.And(kind == V('HTLCSpendConfirmation'), X.zint(hs_csv.d) == 1), hs_csv.vs[1][0].t, -1)))
    has_csv = csv >= 0
    base = height + ANTI_REORG_DELAY - 1
    spec = z3.If(z3.And(has_csv, height + csv - 1 > base), height + csv - 1, base)
    # oracle: kind 0 maturing-delayed, 1 funding spend, 2 htlc spend, 3 other
    okind, ocsv_d, ocsv_v, best = z3.Int('o.kind'), z3.Int('o.csv_d'), z3.Int('o.csv_v'), E.sym('best', 'u32')
    E.assume(okind == z3.If(z3.And(kind == V('MaturingOutput'), d_is_delayed), 0, z3.If(kind == V('FundingSpendConfirmation'), 1, z3.If(kind == V('HTLCSpendConfirmation'), 2, 3))))
    E.assume(ocsv_d == z3.If(has_csv, 1, 0))
    E.assume(ocsv_v == z3.If(has_csv, csv, 0))
    # run has_reached on the same entry with a symbolic best block
    bl = E.sym('bl', fr.params[1][1], mem)
    reached = S.call(E, fr, [entry, bl], mem)
    blv = mem[bl.cell]
    best_h = field(E, D, 'BlockLocator', 'height', blv, 'u32').t
    E.assume(best.t == best_h)
    b = Binding('monitor_event_threshold', [okind, height, ocsv_d, ocsv_v, best.t], [thr.t, reached.t], panic=panic_of(E))
    maturing_other = z3.And(kind == V('MaturingOutput'), z3.Not(d_is_delayed))
    pre2 = pre + [z3.Not(maturing_other), z3.Or(kind != V('MaturingOutput'), True)]
    S.prove('C11.b.monitor_threshold', E, pre, thr.t == spec,
            'monitor on-chain events mature at max(height + ANTI_REORG_DELAY - 1, height + csv - 1) for CSV-encumbered outputs and at height + 5 otherwise',
            [b], bounds='heights < 2^31, all u16 CSV delays, all event kinds')
    S.prove('C11.b.monitor_reached', E, pre, X.zbool(reached.t) == (best_h >= spec),
            'an on-chain conclusion becomes irreversible exactly when the best height reaches the threshold: never before ANTI_REORG_DELAY confirmations nor before a CSV output is spendable',
            [b])
    S.prove('C11.b.monitor_min_depth', E, pre, z3.Implies(X.zbool(reached.t), best_h - height + 1 >= ANTI_REORG_DELAY),
            'no irreversible conclusion with fewer than ANTI_REORG_DELAY confirmations', [b])
    S.no_panic('C11.b.monitor_nopanic', E, pre, 'no overflow for heights < 2^31', [b])
    S.witness('C11.b.monitor_witness', E, pre + [has_csv, csv > 10], reached.t)

    # ---- onchaintx.rs --------------------------------------------------------------------
    E = S.engine()
    mem = {}
    f = S.fn('confirmation_threshold', contains='onchaintx.rs')
    fr = S.fn('has_reached_confirmation_threshold', contains='onchaintx.rs')
    entry = E.sym('e', f.params[0][1], mem)
    thr = S.call(E, f, [entry], mem)
    hh = E.sym('best', 'u32')
    reached = S.call(E, fr, [entry, hh], mem)
    hidx = D.field_index('OnchainEventEntry', 'height', hint='onchaintx')
    height = E.read_path(mem[entry.cell], (('f', hidx, 'u32'),), mem, True, 'spec').t
    pre = [height < (1 << 31)]
    b = Binding('onchaintx_event_threshold', [height, hh.t], [thr.t, reached.t], panic=panic_of(E), domain=[(0, U32), (0, U32)])
    S.validate('C11.b.onchaintx.validate', E, b)
    S.prove('C11.b.onchaintx_threshold', E, pre, z3.And(thr.t == height + ANTI_REORG_DELAY - 1, X.zbool(reached.t) == (hh.t >= height + ANTI_REORG_DELAY - 1)),
            'claim-tracking events mature exactly at height + ANTI_REORG_DELAY - 1', [b], bounds='heights < 2^31')
    S.no_panic('C11.b.onchaintx_nopanic', E, pre, 'no overflow for heights < 2^31', [b])
