"""secret-store obligations (engine M, SHA-256 as an uninterpreted function) shared by C05 and C06"""
import re
import z3
from engine_m import exec as X
from engine_m.session import Binding, Inconclusive
from .common import *

TOP = (1 << 48) - 1


def _fns(S):
    return dict(new=S.fn('new', contains='CounterpartyCommitmentSecrets'),
                provide=S.fn('provide_secret', first_param='CounterpartyCommitmentSecrets'),
                get=S.fn('get_secret', first_param='CounterpartyCommitmentSecrets'),
                minseen=S.fn('get_min_seen_secret', first_param='CounterpartyCommitmentSecrets'),
                build=S.fn('build_commitment_secret'))


def honest_sequence(S, D, prefix, m):
    """start from the empty store; provide build_commitment_secret(seed, I) for the top m indices;
    every call returns Ok, every provided index is recoverable and equals the seed-derived secret,
    the minimum is tracked, the next lower index is not available.  Symbolic: the 32-byte seed and the
    hash function (uninterpreted) - i.e. every seed and every hash."""
    E = S.engine(unwind=50)
    mem = {}
    F = _fns(S)
    seed = X.Abs(z3.Int('seed'))
    cs = E.new_cell()
    mem[cs] = seed
    store = S.call(E, F['new'], [], mem)
    cst = E.new_cell()
    mem[cst] = store
    oks, secrets = [], []
    for j in range(m):
        idx = TOP - j
        sec = S.call(E, F['build'], [X.Ref(cs), X.I(idx, 'u64')], mem)
        secrets.append(sec)
        r = S.call(E, F['provide'], [X.Ref(cst), X.I(idx, 'u64'), sec], mem)
        oks.append(X.zint(r.d) == 0)
    backs = []
    for j in range(m):
        g = S.call(E, F['get'], [X.Ref(cst), X.I(TOP - j, 'u64')], mem)
        some = X.zint(g.d) == 1
        val = g.vs[1][0]
        backs.append(z3.And(some, X.zbool(E.abs_eq(val, secrets[j]))))
    mn = S.call(E, F['minseen'], [X.Ref(cst)], mem)
    below = S.call(E, F['get'], [X.Ref(cst), X.I(TOP - m, 'u64')], mem)
    all_ok, all_back = z3.And(*oks), z3.And(*backs)
    b = Binding('secret_store_honest', [z3.IntVal(m)], [z3.If(all_ok, 1, 0), z3.If(all_back, 1, 0), z3.If(mn.t == TOP - m + 1, 1, 0), z3.If(X.zint(below.d) == 0, 1, 0)],
                panic=z3.Or(*[X.zbool(p[0]) for p in E.panics]) if E.panics else False)
    S.prove(prefix + '.honest_accepted', E, [], all_ok,
            'every seed-derived secret, provided in protocol order, is accepted by the counterparty-secret store', [b],
            bounds='the top %d commitment indices (2^48-1 downwards), symbolic seed, SHA-256 uninterpreted' % m)
    S.prove(prefix + '.all_revoked_recoverable', E, [], z3.And(all_back, mn.t == TOP - m + 1, X.zint(below.d) == 0),
            'after any such prefix of revocations the secret of every revoked commitment is recoverable from the 49-slot store and equals the seed-derived secret; the minimum seen index is exact; an index not yet revoked is not available',
            [b], bounds='top %d indices' % m)
    S.no_panic(prefix + '.honest_nopanic', E, [], 'no panic (get_secret\'s internal assert cannot fire)', [b])


def inconsistent_rejected(S, D, prefix, ms):
    """honest secrets for the top m-1 indices, then a secret that does NOT derive the stored lower
    secrets at an index with at least one trailing zero bit: provide_secret must return Err and leave the
    store unchanged"""
    F = _fns(S)
    for m in ms:
        E = S.engine(unwind=50)
        mem = {}
        seed = X.Abs(z3.Int('seed'))
        bad = X.Abs(z3.Int('bad'))
        cs = E.new_cell()
        mem[cs] = seed
        store = S.call(E, F['new'], [], mem)
        cst = E.new_cell()
        mem[cst] = store
        for j in range(m - 1):
            idx = TOP - j
            sec = S.call(E, F['build'], [X.Ref(cs), X.I(idx, 'u64')], mem)
            S.call(E, F['provide'], [X.Ref(cst), X.I(idx, 'u64'), sec], mem)
        before = mem[cst]
        mn0 = S.call(E, F['minseen'], [X.Ref(cst)], mem)
        idx = TOP - (m - 1)
        pos = (idx & -idx).bit_length() - 1
        if pos == 0:
            raise Inconclusive('index without trailing zero bits carries no constraint')
        # "bad" is inconsistent with the secret stored in slot 0 (index TOP or the latest odd index):
        # deriving it down to that index does not give the stored value
        slot0 = E.read_path(before, (('f', 0, '?'), ('i', 0), ('f', 0, '[u8; 32]')), mem, True, 'spec')
        slot0_idx = E.read_path(before, (('f', 0, '?'), ('i', 0), ('f', 1, 'u64')), mem, True, 'spec')
        fd = S.fn('derive_secret')
        d0 = S.call(E, fd, [bad, X.I(pos, 'u8'), slot0_idx], mem)
        inconsistent = z3.Not(X.zbool(E.abs_eq(d0, slot0)))
        r = S.call(E, F['provide'], [X.Ref(cst), X.I(idx, 'u64'), bad], mem)
        mn1 = S.call(E, F['minseen'], [X.Ref(cst)], mem)
        err = X.zint(r.d) == 1
        b = Binding('secret_store_reject', [z3.IntVal(m)], [z3.If(err, 1, 0), z3.If(mn1.t == mn0.t, 1, 0)])
        S.prove(prefix + '.inconsistent_rejected.m%d' % m, E, [inconsistent], z3.And(err, mn1.t == mn0.t),
                'a revocation secret that does not derive the already stored lower secrets is refused and the store is left as it was (index 2^48-%d, %d trailing zero bits)' % (m, pos),
                [b], bounds='honest prefix of %d secrets, arbitrary inconsistent secret, SHA-256 uninterpreted' % (m - 1))
