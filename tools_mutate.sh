#!/bin/bash
# usage: tools_mutate.sh <prop> <file> <sed-expr>   -- applies a mutation in /repo, runs the quick check, reverts
set -u
prop=$1; file=$2; expr=$3
cd /repo || exit 9
if ! git diff --quiet; then echo "repo dirty"; exit 9; fi
sed -i "$expr" "$file"
if git diff --quiet; then echo "MUTATION DID NOT APPLY"; exit 8; fi
git diff | grep '^[-+]' | grep -v '^+++\|^---'
cd /verif && VERIF_ONLY="${VERIF_ONLY:-}" ./verif check "$prop" 2>&1 | grep -E "VIOLATION|INCONCLUSIVE|PASS|counterexample" | cut -c1-220
rc=${PIPESTATUS[0]}
cd /repo && git checkout -- . 
echo "rc=$rc"
