//! Native probes that need real nodes (lightning's functional_test_utils).
//! Line protocol identical to oracle.rs.
use std::io::{BufRead, Write};
use std::panic::{catch_unwind, AssertUnwindSafe};

use lightning::ln::functional_test_utils::*;
use lightning::util::config::ChannelConfig;
use lightning::ln::msgs::BaseMessageHandler;

/// forward_probe <amount_in> <cltv_in - H> <known 0/1> <out_amt> <out_cltv - H> <base> <prop> <delta>
///   <use_prev_cfg 0/1> <pbase> <pprop> <pdelta>
/// Builds two real nodes with one announced channel, sets the channel's forwarding policy (and, if
/// asked, a previous policy that is still honoured), and asks node 0's real ChannelManager whether it
/// would forward the HTLC over that channel (or over an unknown SCID). Expiries are offsets from
/// the node's current best height H.
fn forward_probe(a: &mut Vec<i128>) -> String {
	let chanmon_cfgs = create_chanmon_cfgs(2);
	let node_cfgs = create_node_cfgs(2, &chanmon_cfgs);
	let node_chanmgrs = create_node_chanmgrs(2, &node_cfgs, &[None, None]);
	let nodes = create_network(2, &node_cfgs, &node_chanmgrs);
	let chan = create_announced_chan_between_nodes(&nodes, 0, 1);
	let scid = chan.0.contents.short_channel_id;
	let chan_id = chan.2;
	let peer = nodes[1].node.get_our_node_id();
	let (amount_in, cltv_off, known, out_amt, out_off) = (a[0] as u64, a[1], a[2] != 0, a[3] as u64, a[4]);
	let (base, prop, delta) = (a[5] as u32, a[6] as u32, a[7] as u16);
	let (use_prev, pbase, pprop, pdelta) = (a[8] != 0, a[9] as u32, a[10] as u32, a[11] as u16);
	let mut cfg = ChannelConfig::default();
	if use_prev {
		cfg.forwarding_fee_base_msat = pbase;
		cfg.forwarding_fee_proportional_millionths = pprop;
		cfg.cltv_expiry_delta = pdelta;
		nodes[0].node.update_channel_config(&peer, &[chan_id], &cfg).unwrap();
	}
	cfg.forwarding_fee_base_msat = base;
	cfg.forwarding_fee_proportional_millionths = prop;
	cfg.cltv_expiry_delta = delta;
	nodes[0].node.update_channel_config(&peer, &[chan_id], &cfg).unwrap();
	let _ = nodes[0].node.get_and_clear_pending_msg_events();
	let h = nodes[0].best_block_info().1 as i128;
	let cltv_in = (h + cltv_off) as u32;
	let out_cltv = (h + out_off) as u32;
	let target_scid = if known { scid } else { 0x0102030405060708 };
	let r = lightning::ln::channelmanager::verif_hooks::can_forward_probe(
		nodes[0].node,
		amount_in,
		cltv_in,
		target_scid,
		out_amt,
		out_cltv,
		true,
	);
	match r {
		Ok(b) => format!("Ok {}", b as u8),
		Err(e) => format!("Err {:?}", e).split('(').next().unwrap().split('{').next().unwrap().trim().to_string(),
	}
}

/// closing_probe <we_are_funder 0/1> <value_to_self_msat> <holder_dust> <fee> <skip_remote 0/1>
/// channel value is fixed at 100_000 sat (functional test default)
fn closing_probe(a: &mut Vec<i128>) -> String {
	let chanmon_cfgs = create_chanmon_cfgs(2);
	let node_cfgs = create_node_cfgs(2, &chanmon_cfgs);
	let node_chanmgrs = create_node_chanmgrs(2, &node_cfgs, &[None, None]);
	let nodes = create_network(2, &node_cfgs, &node_chanmgrs);
	let chan = create_announced_chan_between_nodes(&nodes, 0, 1);
	let chan_id = chan.2;
	let (funder, to_self, dust, fee, skip) = (a[0] != 0, a[1] as u64, a[2] as u64, a[3] as u64, a[4] != 0);
	let (me, peer) = if funder { (0, 1) } else { (1, 0) };
	let peer_id = nodes[peer].node.get_our_node_id();
	let r = lightning::ln::channelmanager::verif_hooks::closing_probe(
		nodes[me].node, &peer_id, &chan_id, to_self, dust, fee, skip,
	);
	match r {
		Some(Ok((h, c, f))) => format!("0 {} {} {}", h, c, f),
		Some(Err(())) => "1 0 0 0".to_string(),
		None => "error channel not found".to_string(),
	}
}

/// prune_probe <has12> <t12> <has21> <t21> <announcement_received_time> <now>
/// A graph with one channel (received at the given time) and the given directional updates, then the real
/// `remove_stale_channels_and_tracking_with_time(now)`. Output: channel still known, one_to_two kept,
/// two_to_one kept. (Built with `_test_utils`, where `update_channel` does not compare timestamps with
/// the wall clock, so arbitrary timestamps can be stored.)
fn prune_probe(a: &mut Vec<i128>) -> String {
	use bitcoin::constants::ChainHash;
	use bitcoin::Network;
	use lightning::ln::msgs::UnsignedChannelUpdate;
	use lightning::routing::gossip::{NetworkGraph, NodeId};
	use lightning::util::test_utils::TestLogger;
	let (h12, t12, h21, t21, ann, now) = (a[0] != 0, a[1] as u32, a[2] != 0, a[3] as u32, a[4] as u64, a[5] as u64);
	let logger = TestLogger::new();
	let g = NetworkGraph::new(Network::Testnet, &logger);
	let n1 = NodeId::from_slice(&[2u8; 33]).unwrap();
	let n2 = NodeId::from_slice(&[3u8; 33]).unwrap();
	g.add_channel_from_partial_announcement(42, None, ann, lightning::types::features::ChannelFeatures::empty(), n1, n2).unwrap();
	let mk = |flags: u8, ts: u32| UnsignedChannelUpdate {
		chain_hash: ChainHash::using_genesis_block(Network::Testnet),
		short_channel_id: 42,
		timestamp: ts,
		message_flags: 1,
		channel_flags: flags,
		cltv_expiry_delta: 40,
		htlc_minimum_msat: 0,
		htlc_maximum_msat: 1,
		fee_base_msat: 1,
		fee_proportional_millionths: 1,
		excess_data: Vec::new(),
	};
	if h12 {
		if g.update_channel_unsigned(&mk(0, t12)).is_err() { return "error update 0 refused".to_string(); }
	}
	if h21 {
		if g.update_channel_unsigned(&mk(1, t21)).is_err() { return "error update 1 refused".to_string(); }
	}
	g.remove_stale_channels_and_tracking_with_time(now);
	let ro = g.read_only();
	match ro.channels().get(&42) {
		Some(c) => format!("1 {} {}", c.one_to_two.is_some() as u8, c.two_to_one.is_some() as u8),
		None => "0 0 0".to_string(),
	}
}

/// monitor_reorg_probe <style> <a> <down> <c>
/// Two real nodes, one channel, a pending *dust* HTLC 0 -> 1; node 0 force-closes and its commitment
/// transaction confirms at height H. Then `a` more blocks are connected, the chain is rewound by
/// `down` blocks (down <= a + 1; down = a + 1 also disconnects the block holding the commitment
/// transaction) and `c` empty blocks are connected. Output (node 0's monitor):
///   best height - H | FundingSpendConfirmation entry at H still awaiting (0/1) | funding spend
///   irrevocably confirmed (0/1) | number of outbound HTLCs reported as failed on chain
/// style: 0 FullBlockViaListen, 1 BestBlockFirst, 2 TransactionsFirst, 3 FullBlockDisconnectionsSkippingViaListen
fn monitor_reorg_probe(a: &mut Vec<i128>) -> String {
	use lightning::ln::types::ChannelId;
	let (style, up, down, again) = (a[0], a[1] as u32, a[2] as u32, a[3] as u32);
	let chanmon_cfgs = create_chanmon_cfgs(2);
	let node_cfgs = create_node_cfgs(2, &chanmon_cfgs);
	let node_chanmgrs = create_node_chanmgrs(2, &node_cfgs, &[None, None]);
	let nodes = create_network(2, &node_cfgs, &node_chanmgrs);
	let cs = match style {
		0 => ConnectStyle::FullBlockViaListen,
		1 => ConnectStyle::BestBlockFirst,
		2 => ConnectStyle::TransactionsFirst,
		_ => ConnectStyle::FullBlockDisconnectionsSkippingViaListen,
	};
	*nodes[0].connect_style.borrow_mut() = cs;
	*nodes[1].connect_style.borrow_mut() = cs;
	let chan = create_announced_chan_between_nodes(&nodes, 0, 1);
	let chan_id: ChannelId = chan.2;
	let _ = route_payment(&nodes[0], &[&nodes[1]], 100_000);
	let peer = nodes[1].node.get_our_node_id();
	nodes[0].node.force_close_broadcasting_latest_txn(&chan_id, &peer, "probe".to_string()).unwrap();
	let commitment = {
		let mon = nodes[0].chain_monitor.chain_monitor.get_monitor(chan_id).unwrap();
		mon.unsafe_get_latest_holder_commitment_txn(&nodes[0].logger)[0].clone()
	};
	mine_transaction(&nodes[0], &commitment);
	let h = nodes[0].best_block_info().1;
	if up > 0 { connect_blocks(&nodes[0], up); }
	if down > 0 { disconnect_blocks(&nodes[0], down); }
	if again > 0 { connect_blocks(&nodes[0], again); }
	let res = {
		let mon = nodes[0].chain_monitor.chain_monitor.get_monitor(chan_id).unwrap();
		let (best, heights, confirmed, failed) = lightning::chain::channelmonitor::verif_hooks::reorg_observation(&mon);
		format!("{} {} {} {}", best as i64 - h as i64, heights.iter().any(|x| *x == h) as u8, confirmed as u8, failed)
	};
	// the probe ends mid-protocol: skip the end-of-test consistency checks of the test harness
	core::mem::forget(nodes);
	res
}

/// htlc_timeout_probe <role> <delta>
/// Two real nodes, one channel, one non-dust HTLC 0 -> 1 left unresolved. role 0: observe node 0 (the HTLC is
/// outbound for it); role 1: node 1 claims (its monitor learns the preimage) but the fulfil never reaches node 0,
/// observe node 1; role 2: node 1 without the preimage. Blocks are connected on the observed node one by one
/// until its best height is `cltv_expiry + delta`. Output: 1 if that node's monitor has gone on chain for the
/// HTLC by then (the manager reports ChannelClosed with reason HTLCsTimedOut), else 0; and best - cltv_expiry.
fn htlc_timeout_probe(a: &mut Vec<i128>) -> String {
	use lightning::chain::channelmonitor::Balance;
	use lightning::events::{ClosureReason, Event};
	let (role, delta) = (a[0], a[1]);
	let chanmon_cfgs = create_chanmon_cfgs(2);
	let node_cfgs = create_node_cfgs(2, &chanmon_cfgs);
	let node_chanmgrs = create_node_chanmgrs(2, &node_cfgs, &[None, None]);
	let nodes = create_network(2, &node_cfgs, &node_chanmgrs);
	*nodes[0].connect_style.borrow_mut() = ConnectStyle::FullBlockViaListen;
	*nodes[1].connect_style.borrow_mut() = ConnectStyle::FullBlockViaListen;
	let chan = create_announced_chan_between_nodes(&nodes, 0, 1);
	let chan_id = chan.2;
	let (preimage, _hash, _, _) = route_payment(&nodes[0], &[&nodes[1]], 3_000_000);
	let cltv = {
		let mon = nodes[0].chain_monitor.chain_monitor.get_monitor(chan_id).unwrap();
		let mut c = None;
		for b in mon.get_claimable_balances() {
			if let Balance::MaybeTimeoutClaimableHTLC { claimable_height, .. } = b {
				c = Some(claimable_height);
			}
		}
		c.expect("HTLC balance") as i128
	};
	let who = if role == 0 { 0 } else { 1 };
	if role == 1 {
		nodes[1].node.claim_funds(preimage);
		let _ = nodes[1].node.get_and_clear_pending_msg_events(); // the update_fulfill_htlc is never delivered
		let _ = nodes[1].node.get_and_clear_pending_events();
	}
	let target = cltv + delta;
	let mut closed = false;
	while (nodes[who].best_block_info().1 as i128) < target {
		connect_blocks(&nodes[who], 1);
		let _ = nodes[who].node.get_and_clear_pending_msg_events();
		for ev in nodes[who].node.get_and_clear_pending_events() {
			if let Event::ChannelClosed { reason: ClosureReason::HTLCsTimedOut { .. }, .. } = ev {
				closed = true;
			}
		}
		if closed {
			break;
		}
	}
	let best = nodes[who].best_block_info().1 as i128;
	core::mem::forget(nodes);
	format!("{} {}", closed as u8, best - cltv)
}

/// revoked_htlc_claim_probe <has_output 0/1> <offered_by_cheater 0/1>
/// Node 0 cheats: its commitment holding one pending HTLC (3 000 sat if has_output, else a 100 sat dust HTLC;
/// offered by node 0 or received by it) is saved, the channel moves on (the HTLC is claimed, revoking that
/// commitment), and the saved transaction is then confirmed on node 1's chain. Output: 1 if node 1 broadcasts a
/// transaction spending the HTLC's output of the revoked commitment (always 0 for a dust HTLC: there is no output).
/// With has_output the scenario runs twice: a 3 000 sat HTLC (an output in the middle) and a 46 000 sat HTLC, worth
/// more than either balance and therefore the LAST output (BIP 69 order); both must be claimed.
fn revoked_htlc_claim_probe(a: &mut Vec<i128>) -> String {
	let (has_output, offered) = (a[0] != 0, a[1] != 0);
	let (claimed, has_vout) = revoked_htlc_claim_scenario(has_output, offered, false);
	if !has_output {
		return format!("{} {}", claimed as u8, has_vout as u8);
	}
	// the same with an HTLC worth more than either balance: its output is the LAST output of the revoked commitment
	let (claimed_big, has_vout_big) = revoked_htlc_claim_scenario(true, offered, true);
	format!("{} {}", (claimed && claimed_big) as u8, (has_vout && has_vout_big) as u8)
}

fn revoked_htlc_claim_scenario(has_output: bool, offered: bool, big: bool) -> (bool, bool) {
	let chanmon_cfgs = create_chanmon_cfgs(2);
	let node_cfgs = create_node_cfgs(2, &chanmon_cfgs);
	let mut cfg = test_default_channel_config();
	// the big HTLC is worth 46 % of the channel: lift the default 10 % in-flight limit
	cfg.channel_handshake_config.announced_channel_max_inbound_htlc_value_in_flight_percentage = 100;
	let node_chanmgrs = create_node_chanmgrs(2, &node_cfgs, &[Some(cfg.clone()), Some(cfg)]);
	let nodes = create_network(2, &node_cfgs, &node_chanmgrs);
	*nodes[0].connect_style.borrow_mut() = ConnectStyle::FullBlockViaListen;
	*nodes[1].connect_style.borrow_mut() = ConnectStyle::FullBlockViaListen;
	let chan = create_announced_chan_between_nodes(&nodes, 0, 1);
	let chan_id = chan.2;
	// some balance on both sides first, so that either direction can carry the HTLC
	send_payment(&nodes[0], &[&nodes[1]], 10_000_000);
	if big && !offered {
		send_payment(&nodes[0], &[&nodes[1]], 50_000_000);
	}
	let amt = if big { 46_000_000 } else if has_output { 3_000_000 } else { 100_000 };
	let (src, dst) = if offered { (0, 1) } else { (1, 0) };
	let (preimage, _, _, _) = route_payment(&nodes[src], &[&nodes[dst]], amt);
	let revoked = {
		let mon = nodes[0].chain_monitor.chain_monitor.get_monitor(chan_id).unwrap();
		mon.unsafe_get_latest_holder_commitment_txn(&nodes[0].logger)[0].clone()
	};
	claim_payment(&nodes[src], &[&nodes[dst]], preimage);
	let vout = revoked.output.iter().position(|o| o.value.to_sat() == amt / 1000);
	if big {
		if std::env::var("ORACLE_DEBUG").is_ok() {
			eprintln!("revoked outputs: {:?}", revoked.output.iter().map(|o| o.value.to_sat()).collect::<Vec<_>>());
		}
		assert_eq!(vout, Some(revoked.output.len() - 1), "the big HTLC is meant to be the last output");
	}
	nodes[1].tx_broadcaster.txn_broadcasted.lock().unwrap().clear();
	mine_transaction(&nodes[1], &revoked);
	let txid = revoked.compute_txid();
	let claimed = match vout {
		Some(v) => nodes[1].tx_broadcaster.txn_broadcasted.lock().unwrap().iter().any(|t| {
			t.input.iter().any(|i| i.previous_output.txid == txid && i.previous_output.vout == v as u32)
		}),
		None => false,
	};
	core::mem::forget(nodes);
	(claimed, vout.is_some())
}

/// counterparty_claim_probe <has_output 0/1> <offered_by_counterparty 0/1> <preimage_known 0/1>
/// Node 0 broadcasts its CURRENT commitment, which holds one pending HTLC (3 000 sat, or a 100 sat dust HTLC;
/// offered by node 0 - optionally with node 1 already knowing the preimage - or offered by node 1), and it confirms
/// on node 1's chain. Output: 1 if node 1's monitor then tracks a claim for that HTLC's output (pursued already
/// or waiting for its locktime), the counterparty-spendable height of that claim minus the HTLC's CLTV expiry, and
/// whether the commitment has such an output at all.
fn counterparty_claim_probe(a: &mut Vec<i128>) -> String {
	use lightning::chain::channelmonitor::Balance;
	let (has_output, offered, known) = (a[0] != 0, a[1] != 0, a[2] != 0);
	let chanmon_cfgs = create_chanmon_cfgs(2);
	let node_cfgs = create_node_cfgs(2, &chanmon_cfgs);
	let node_chanmgrs = create_node_chanmgrs(2, &node_cfgs, &[None, None]);
	let nodes = create_network(2, &node_cfgs, &node_chanmgrs);
	*nodes[0].connect_style.borrow_mut() = ConnectStyle::FullBlockViaListen;
	*nodes[1].connect_style.borrow_mut() = ConnectStyle::FullBlockViaListen;
	let chan = create_announced_chan_between_nodes(&nodes, 0, 1);
	let chan_id = chan.2;
	send_payment(&nodes[0], &[&nodes[1]], 10_000_000);
	let amt = if has_output { 3_000_000 } else { 100_000 };
	let (src, dst) = if offered { (0, 1) } else { (1, 0) };
	let (preimage, _, _, _) = route_payment(&nodes[src], &[&nodes[dst]], amt);
	let cltv = {
		let mon = nodes[src].chain_monitor.chain_monitor.get_monitor(chan_id).unwrap();
		let mut c = 0i128;
		for b in mon.get_claimable_balances() {
			if let Balance::MaybeTimeoutClaimableHTLC { claimable_height, .. } = b {
				c = claimable_height as i128;
			}
		}
		c
	};
	if offered && known {
		nodes[1].node.claim_funds(preimage);
		let _ = nodes[1].node.get_and_clear_pending_msg_events(); // never delivered
		let _ = nodes[1].node.get_and_clear_pending_events();
	}
	let commitment = {
		let mon = nodes[0].chain_monitor.chain_monitor.get_monitor(chan_id).unwrap();
		mon.unsafe_get_latest_holder_commitment_txn(&nodes[0].logger)[0].clone()
	};
	let vout = commitment.output.iter().position(|o| o.value.to_sat() == amt / 1000);
	mine_transaction(&nodes[1], &commitment);
	let txid = commitment.compute_txid();
	let mon = nodes[1].chain_monitor.chain_monitor.get_monitor(chan_id).unwrap();
	let claims = lightning::chain::channelmonitor::verif_hooks::tracked_claims(&mon);
	let hit = vout.and_then(|v| claims.iter().find(|(t, o, _, _)| *t == txid && *o == v as u32));
	let res = match hit {
		Some((_, _, h, _)) => format!("1 {} {}", *h as i128 - cltv, vout.is_some() as u8),
		None => format!("0 0 {}", vout.is_some() as u8),
	};
	drop(mon);
	core::mem::forget(nodes);
	res
}

/// holder_claim_probe <offered_by_us 0/1> <preimage_known 0/1>
/// Node 1's OWN current commitment, holding one pending 3 000 sat HTLC (offered by node 1, or received by it - with
/// or without node 1 knowing the preimage), confirms on node 1's chain. Output: 1 if node 1's monitor then tracks a
/// claim for that HTLC's output; then 1 if that claim's counterparty-spendable height is the confirmation height,
/// 0 if it is the HTLC's CLTV expiry, 9 otherwise / no claim.
fn holder_claim_probe(a: &mut Vec<i128>) -> String {
	use lightning::chain::channelmonitor::Balance;
	let (offered, known) = (a[0] != 0, a[1] != 0);
	let chanmon_cfgs = create_chanmon_cfgs(2);
	let node_cfgs = create_node_cfgs(2, &chanmon_cfgs);
	let node_chanmgrs = create_node_chanmgrs(2, &node_cfgs, &[None, None]);
	let nodes = create_network(2, &node_cfgs, &node_chanmgrs);
	*nodes[0].connect_style.borrow_mut() = ConnectStyle::FullBlockViaListen;
	*nodes[1].connect_style.borrow_mut() = ConnectStyle::FullBlockViaListen;
	let chan = create_announced_chan_between_nodes(&nodes, 0, 1);
	let chan_id = chan.2;
	send_payment(&nodes[0], &[&nodes[1]], 10_000_000);
	let (src, dst) = if offered { (1, 0) } else { (0, 1) };
	let (preimage, _, _, _) = route_payment(&nodes[src], &[&nodes[dst]], 3_000_000);
	let cltv = {
		let mon = nodes[src].chain_monitor.chain_monitor.get_monitor(chan_id).unwrap();
		let mut c = 0u32;
		for b in mon.get_claimable_balances() {
			if let Balance::MaybeTimeoutClaimableHTLC { claimable_height, .. } = b {
				c = claimable_height;
			}
		}
		c
	};
	if !offered && known {
		nodes[1].node.claim_funds(preimage);
		let _ = nodes[1].node.get_and_clear_pending_msg_events(); // never delivered
		let _ = nodes[1].node.get_and_clear_pending_events();
	}
	let commitment = {
		let mon = nodes[1].chain_monitor.chain_monitor.get_monitor(chan_id).unwrap();
		mon.unsafe_get_latest_holder_commitment_txn(&nodes[1].logger)[0].clone()
	};
	let vout = commitment.output.iter().position(|o| o.value.to_sat() == 3_000).expect("HTLC output") as u32;
	mine_transaction(&nodes[1], &commitment);
	let conf = nodes[1].best_block_info().1;
	let txid = commitment.compute_txid();
	let mon = nodes[1].chain_monitor.chain_monitor.get_monitor(chan_id).unwrap();
	let claims = lightning::chain::channelmonitor::verif_hooks::tracked_claims(&mon);
	let res = match claims.iter().find(|(t, o, _, _)| *t == txid && *o == vout) {
		Some((_, _, h, _)) => format!("1 {}", if *h == conf { 1 } else if *h == cltv { 0 } else { 9 }),
		None => "0 9".to_string(),
	};
	drop(mon);
	core::mem::forget(nodes);
	res
}

/// claim_deadline_probe <n> (<cltv_expiry> <value_msat>)*n [<an earlier claim of the hash is in flight 0/1>]
/// The parts of one multi-part payment, in this order, through the real `handle_claimable_htlc` of a live
/// ChannelManager. Output: `1 <amount_msat> <claim_deadline>` from the PaymentClaimable event, or `0 0 0`.
fn claim_deadline_probe(a: &mut Vec<i128>) -> String {
	let n = a[0] as usize;
	let parts: Vec<(u32, u64)> = (0..n).map(|i| (a[1 + 2 * i] as u32, a[2 + 2 * i] as u64)).collect();
	let chanmon_cfgs = create_chanmon_cfgs(1);
	let node_cfgs = create_node_cfgs(1, &chanmon_cfgs);
	let node_chanmgrs = create_node_chanmgrs(1, &node_cfgs, &[None]);
	let nodes = create_network(1, &node_cfgs, &node_chanmgrs);
	let claiming = a.len() > 1 + 2 * n && a[1 + 2 * n] != 0;
	let r = if claiming {
		lightning::ln::channelmanager::verif_hooks::claim_in_flight_probe(nodes[0].node, &parts)
	} else {
		lightning::ln::channelmanager::verif_hooks::claim_deadline_probe(nodes[0].node, &parts)
	};
	core::mem::forget(nodes);
	match r {
		Some((amt, Some(d))) => format!("1 {} {}", amt, d),
		Some((amt, None)) => format!("2 {} 0", amt),
		None => "0 0 0".to_string(),
	}
}

/// mpp_partial_claim_probe <expire_first_part 0/1>
/// Four real nodes A -> {B, C} -> D; D receives a two-part MPP payment (5 000 000 msat per part, the part via B
/// expires four blocks before the part via C) and sees PaymentClaimable. With expire_first_part the chain on D then
/// advances to the advertised claim deadline, at which D fails the earlier part back and still holds the other.
/// Then the user calls claim_funds. Output: number of parts D still held at that point, and the number of
/// update_fulfill_htlc messages D releases (the preimage going out).
fn mpp_partial_claim_probe(a: &mut Vec<i128>) -> String {
	use lightning::events::Event;
	use lightning::ln::channelmanager::PaymentId;
	use lightning::ln::outbound_payment::{RecipientOnionFields, Retry};
	const HTLC_FAIL_BACK_BUFFER: u32 = 39; // CLTV_CLAIM_BUFFER + LATENCY_GRACE_PERIOD_BLOCKS (pub(crate) in the library)
	use lightning::ln::msgs::MessageSendEvent;
	use lightning::routing::router::{PaymentParameters, RouteParameters, Router};
	let expire = a[0] != 0;
	let chanmon_cfgs = create_chanmon_cfgs(4);
	let node_cfgs = create_node_cfgs(4, &chanmon_cfgs);
	let mut legacy_cfg = test_legacy_channel_config();
	legacy_cfg.channel_handshake_config.announced_channel_max_inbound_htlc_value_in_flight_percentage = 10;
	let configs: [Option<lightning::util::config::UserConfig>; 4] = core::array::from_fn(|_| Some(legacy_cfg.clone()));
	let node_chanmgrs = create_node_chanmgrs(4, &node_cfgs, &configs);
	let nodes = create_network(4, &node_cfgs, &node_chanmgrs);
	for n in nodes.iter() {
		*n.connect_style.borrow_mut() = ConnectStyle::FullBlockViaListen;
	}
	let node_a_id = nodes[0].node.get_our_node_id();
	let node_b_id = nodes[1].node.get_our_node_id();
	let node_d_id = nodes[3].node.get_our_node_id();
	create_announced_chan_between_nodes(&nodes, 0, 1);
	create_announced_chan_between_nodes_with_value(&nodes, 0, 2, 1_000_000, 0);
	create_announced_chan_between_nodes_with_value(&nodes, 1, 3, 1_000_000, 0);
	create_announced_chan_between_nodes(&nodes, 2, 3);
	let (payment_preimage, hash, payment_secret) = get_payment_preimage_hash(&nodes[3], None, None);
	let payment_params = PaymentParameters::from_node_id(node_d_id, TEST_FINAL_CLTV)
		.with_bolt11_features(nodes[1].node.bolt11_invoice_features())
		.unwrap();
	let amt_msat = 10_000_000;
	let route_params = RouteParameters::from_payment_params_and_value(payment_params, amt_msat);
	let inflight = nodes[0].node.compute_inflight_htlcs();
	let mut route = nodes[0].router.find_route(&node_a_id, &route_params, None, inflight).unwrap();
	route.paths.sort_by(|x, _| if x.hops[0].pubkey == node_b_id { core::cmp::Ordering::Less } else { core::cmp::Ordering::Greater });
	route.paths[0].hops[1].cltv_expiry_delta = TEST_FINAL_CLTV + 8;
	route.paths[1].hops[1].cltv_expiry_delta = TEST_FINAL_CLTV + 12;
	let final_cltv = nodes[0].best_block_info().1 + TEST_FINAL_CLTV + 8 + 1;
	nodes[0].router.expect_find_route(route_params.clone(), Ok(route.clone()));
	let onion = RecipientOnionFields::secret_only(payment_secret, amt_msat);
	nodes[0].node.send_payment(hash, onion, PaymentId(hash.0), route_params, Retry::Attempts(1)).unwrap();
	check_added_monitors(&nodes[0], 2);
	let mut send_msgs = nodes[0].node.get_and_clear_pending_msg_events();
	send_msgs.sort_by(|x, _| {
		let id = if let MessageSendEvent::UpdateHTLCs { node_id, .. } = x { node_id } else { panic!() };
		if *id == node_b_id { core::cmp::Ordering::Less } else { core::cmp::Ordering::Greater }
	});
	let (msg_a, msg_b) = (send_msgs.remove(0), send_msgs.remove(0));
	pass_along_path(&nodes[0], &[&nodes[1], &nodes[3]], amt_msat, hash, Some(payment_secret), msg_a, false, None);
	let ev = pass_along_path(&nodes[0], &[&nodes[2], &nodes[3]], amt_msat, hash, Some(payment_secret), msg_b, true, None);
	match ev.unwrap() {
		Event::PaymentClaimable { .. } => {},
		_ => return "error no PaymentClaimable".to_string(),
	}
	let mut held = 2;
	if expire {
		let blocks = final_cltv - HTLC_FAIL_BACK_BUFFER - nodes[3].best_block_info().1;
		connect_blocks(&nodes[3], blocks);
		nodes[3].node.process_pending_htlc_forwards();
		let _ = nodes[3].node.get_and_clear_pending_events();
		let fails = nodes[3].node.get_and_clear_pending_msg_events();
		let n_fail: usize = fails.iter().map(|m| if let MessageSendEvent::UpdateHTLCs { updates, .. } = m { updates.update_fail_htlcs.len() } else { 0 }).sum();
		held -= n_fail;
		let _ = nodes[3].chain_monitor.added_monitors.lock().unwrap().split_off(0);
	}
	nodes[3].node.claim_funds(payment_preimage);
	let msgs = nodes[3].node.get_and_clear_pending_msg_events();
	let fulfills: usize = msgs.iter().map(|m| if let MessageSendEvent::UpdateHTLCs { updates, .. } = m { updates.update_fulfill_htlcs.len() } else { 0 }).sum();
	core::mem::forget(nodes);
	format!("{} {}", held, fulfills)
}

/// raa_probe <awaiting_remote_revoke> <monitor_update_in_progress> <peer_disconnected> <secret_matches>
/// Two real nodes; node 0 has sent a commitment_signed for a new HTLC and node 1 answers with its genuine
/// revoke_and_ack. Before node 0's channel processes it, the probe overwrites the three channel-state flags and,
/// if secret_matches = 0, replaces the per-commitment secret by another valid key. Output: 1 if the real
/// `FundedChannel::revoke_and_ack` accepted the message.
fn raa_probe(a: &mut Vec<i128>) -> String {
	use lightning::ln::channelmanager::PaymentId;
	use lightning::ln::msgs::ChannelMessageHandler;
	use lightning::ln::outbound_payment::RecipientOnionFields;
	let (awaiting, mon, disc, good) = (a[0] != 0, a[1] != 0, a[2] != 0, a[3] != 0);
	let chanmon_cfgs = create_chanmon_cfgs(2);
	let node_cfgs = create_node_cfgs(2, &chanmon_cfgs);
	let node_chanmgrs = create_node_chanmgrs(2, &node_cfgs, &[None, None]);
	let nodes = create_network(2, &node_cfgs, &node_chanmgrs);
	let node_a_id = nodes[0].node.get_our_node_id();
	let node_b_id = nodes[1].node.get_our_node_id();
	let chan_id = create_announced_chan_between_nodes(&nodes, 0, 1).2;
	send_payment(&nodes[0], &[&nodes[1]], 1_000_000);
	let (route, payment_hash, _, payment_secret) = lightning::get_route_and_payment_hash!(nodes[0], nodes[1], 1_000_000);
	let onion = RecipientOnionFields::secret_only(payment_secret, 1_000_000);
	nodes[0].node.send_payment_with_route(route, payment_hash, onion, PaymentId(payment_hash.0)).unwrap();
	check_added_monitors(&nodes[0], 1);
	let mut events = nodes[0].node.get_and_clear_pending_msg_events();
	let payment_event = SendEvent::from_event(events.remove(0));
	nodes[1].node.handle_update_add_htlc(node_a_id, &payment_event.msgs[0]);
	nodes[1].node.handle_commitment_signed_batch_test(node_a_id, &payment_event.commitment_msg);
	check_added_monitors(&nodes[1], 1);
	let (mut bs_raa, _cs) = get_revoke_commit_msgs(&nodes[1], &node_a_id);
	if !good {
		bs_raa.per_commitment_secret = [42; 32];
	}
	let r = lightning::ln::channelmanager::verif_hooks::revoke_and_ack_probe(
		nodes[0].node, &node_b_id, &chan_id, &bs_raa, awaiting, mon, disc,
	);
	core::mem::forget(nodes);
	match r {
		Some(ok) => format!("{}", ok as u8),
		None => "error channel not found".to_string(),
	}
}

/// commitment_signed_probe <n_htlc_sigs 0..2> <htlc_sigs_valid 0/1>
/// Two real nodes; node 0 adds one (non-dust) HTLC and signs node 1's next commitment. The commitment_signed is then
/// altered - its single HTLC signature dropped (0), kept (1) or duplicated (2), and, if htlc_sigs_valid = 0, replaced
/// by the (valid, but wrong) commitment signature - and delivered to node 1. Output: 0 if node 1 rejected it by
/// closing the channel, 1 if it did not (the channel is still open, or a later stage crashed on the accepted message).
fn commitment_signed_probe(a: &mut Vec<i128>) -> String {
	use lightning::ln::channelmanager::PaymentId;
	use lightning::ln::msgs::ChannelMessageHandler;
	use lightning::ln::outbound_payment::RecipientOnionFields;
	let (n_sigs, valid) = (a[0] as usize, a[1] != 0);
	let chanmon_cfgs = create_chanmon_cfgs(2);
	let node_cfgs = create_node_cfgs(2, &chanmon_cfgs);
	let node_chanmgrs = create_node_chanmgrs(2, &node_cfgs, &[None, None]);
	let nodes = create_network(2, &node_cfgs, &node_chanmgrs);
	let node_a_id = nodes[0].node.get_our_node_id();
	create_announced_chan_between_nodes(&nodes, 0, 1);
	let (route, payment_hash, _, payment_secret) = lightning::get_route_and_payment_hash!(nodes[0], nodes[1], 3_000_000);
	let onion = RecipientOnionFields::secret_only(payment_secret, 3_000_000);
	nodes[0].node.send_payment_with_route(route, payment_hash, onion, PaymentId(payment_hash.0)).unwrap();
	check_added_monitors(&nodes[0], 1);
	let mut events = nodes[0].node.get_and_clear_pending_msg_events();
	let mut payment_event = SendEvent::from_event(events.remove(0));
	nodes[1].node.handle_update_add_htlc(node_a_id, &payment_event.msgs[0]);
	let cs = &mut payment_event.commitment_msg[0];
	if cs.htlc_signatures.len() != 1 {
		return "error expected one HTLC signature".to_string();
	}
	if !valid {
		cs.htlc_signatures[0] = cs.signature;
	}
	match n_sigs {
		0 => cs.htlc_signatures.clear(),
		1 => {},
		_ => { let s0 = cs.htlc_signatures[0]; cs.htlc_signatures.push(s0); },
	}
	// a message that passes validation but is malformed makes later stages assert (e.g. the monitor's
	// `nondust_htlcs().len() == counterparty_htlc_sigs.len()`): that is 'not rejected' too
	let delivered = catch_unwind(AssertUnwindSafe(|| {
		nodes[1].node.handle_commitment_signed_batch_test(node_a_id, &payment_event.commitment_msg);
		nodes[1].node.list_channels().len()
	}));
	core::mem::forget(nodes);
	match delivered {
		Ok(open) => format!("{}", open),
		Err(_) => "1".to_string(),
	}
}

/// preimage_after_conf_reorg_probe <k> <d>
/// Node 0's current commitment, holding a 3 000 sat HTLC offered to node 1, confirms on node 1's chain at height H;
/// k more blocks are connected and only THEN does node 1 learn the preimage (claim_funds, the fulfil never reaches
/// node 0), so its monitor builds the HTLC claim from the funding-spend entry still awaiting its confirmation
/// threshold. Then d blocks are disconnected. Output: 1 if a claim for the HTLC output was tracked before the reorg,
/// and 1 if one is still tracked after it. The claim spends an output of the transaction confirmed at H: it must
/// survive iff that block is still in the chain (d <= k).
fn preimage_after_conf_reorg_probe(a: &mut Vec<i128>) -> String {
	let (k, d) = (a[0] as u32, a[1] as u32);
	let own = a.len() > 2 && a[2] != 0; // 1: node 1's OWN commitment confirms instead (it force-closes)
	let chanmon_cfgs = create_chanmon_cfgs(2);
	let node_cfgs = create_node_cfgs(2, &chanmon_cfgs);
	let node_chanmgrs = create_node_chanmgrs(2, &node_cfgs, &[None, None]);
	let nodes = create_network(2, &node_cfgs, &node_chanmgrs);
	*nodes[0].connect_style.borrow_mut() = ConnectStyle::FullBlockViaListen;
	*nodes[1].connect_style.borrow_mut() = ConnectStyle::FullBlockViaListen;
	let chan = create_announced_chan_between_nodes(&nodes, 0, 1);
	let chan_id = chan.2;
	send_payment(&nodes[0], &[&nodes[1]], 10_000_000);
	let (preimage, _, _, _) = route_payment(&nodes[0], &[&nodes[1]], 3_000_000);
	let commitment = if own {
		let peer = nodes[0].node.get_our_node_id();
		nodes[1].node.force_close_broadcasting_latest_txn(&chan_id, &peer, "probe".to_string()).unwrap();
		let _ = nodes[1].node.get_and_clear_pending_msg_events();
		let _ = nodes[1].node.get_and_clear_pending_events();
		nodes[1].chain_monitor.added_monitors.lock().unwrap().clear();
		let mon = nodes[1].chain_monitor.chain_monitor.get_monitor(chan_id).unwrap();
		mon.unsafe_get_latest_holder_commitment_txn(&nodes[1].logger)[0].clone()
	} else {
		let mon = nodes[0].chain_monitor.chain_monitor.get_monitor(chan_id).unwrap();
		mon.unsafe_get_latest_holder_commitment_txn(&nodes[0].logger)[0].clone()
	};
	let vout = commitment.output.iter().position(|o| o.value.to_sat() == 3_000).expect("HTLC output") as u32;
	let txid = commitment.compute_txid();
	mine_transaction(&nodes[1], &commitment);
	if k > 0 {
		connect_blocks(&nodes[1], k);
	}
	let _ = nodes[1].node.get_and_clear_pending_msg_events();
	let _ = nodes[1].node.get_and_clear_pending_events();
	nodes[1].node.claim_funds(preimage);
	let _ = nodes[1].node.get_and_clear_pending_msg_events();
	let _ = nodes[1].node.get_and_clear_pending_events();
	let tracked = |nodes: &Vec<Node>| {
		let mon = nodes[1].chain_monitor.chain_monitor.get_monitor(chan_id).unwrap();
		lightning::chain::channelmonitor::verif_hooks::tracked_claims(&mon).iter().any(|(t, o, _, _)| *t == txid && *o == vout)
	};
	let before = tracked(&nodes);
	if d > 0 {
		disconnect_blocks(&nodes[1], d);
	}
	let after = tracked(&nodes);
	if a.len() > 3 && a[3] > 0 {
		// the chain grows again: is the claim back?
		connect_blocks(&nodes[1], a[3] as u32);
		let again = tracked(&nodes);
		core::mem::forget(nodes);
		return format!("{} {} {}", before as u8, after as u8, again as u8);
	}
	core::mem::forget(nodes);
	format!("{} {}", before as u8, after as u8)
}

/// late_preimage_same_hash_probe
/// Node 0 pays node 1 with a two-part MPP payment whose parts (3 000 sat each) travel over the same channel, so node
/// 0's commitment carries two HTLC outputs with the same payment hash. That commitment confirms on node 1's chain and
/// only then does node 1 learn the preimage. Output: how many of the two HTLC outputs node 1's monitor then has a
/// claim for.
fn late_preimage_same_hash_probe(_a: &mut Vec<i128>) -> String {
	use lightning::ln::channelmanager::PaymentId;
	use lightning::ln::outbound_payment::RecipientOnionFields;
	const PART_MSAT: u64 = 3_000_000;
	let chanmon_cfgs = create_chanmon_cfgs(2);
	let node_cfgs = create_node_cfgs(2, &chanmon_cfgs);
	let node_chanmgrs = create_node_chanmgrs(2, &node_cfgs, &[None, None]);
	let nodes = create_network(2, &node_cfgs, &node_chanmgrs);
	*nodes[0].connect_style.borrow_mut() = ConnectStyle::FullBlockViaListen;
	*nodes[1].connect_style.borrow_mut() = ConnectStyle::FullBlockViaListen;
	let chan_id = create_announced_chan_between_nodes_with_value(&nodes, 0, 1, 1_000_000, 0).2;
	let (route, payment_hash, payment_preimage, payment_secret) = lightning::get_route_and_payment_hash!(&nodes[0], nodes[1], PART_MSAT);
	// two separate sends with the same hash / secret / total: for the recipient, the two parts of one payment
	for idx in 0..2u8 {
		let onion = RecipientOnionFields::secret_only(payment_secret, 2 * PART_MSAT);
		nodes[0].node.send_payment_with_route(route.clone(), payment_hash, onion, PaymentId([42 + idx; 32])).unwrap();
		check_added_monitors(&nodes[0], 1);
		let mut events = nodes[0].node.get_and_clear_pending_msg_events();
		if events.len() != 1 {
			return format!("error {} message events for part {}", events.len(), idx);
		}
		pass_along_path(&nodes[0], &[&nodes[1]], 2 * PART_MSAT, payment_hash, Some(payment_secret), events.remove(0), idx == 1, None);
	}
	let commitment = {
		let mon = nodes[0].chain_monitor.chain_monitor.get_monitor(chan_id).unwrap();
		mon.unsafe_get_latest_holder_commitment_txn(&nodes[0].logger)[0].clone()
	};
	let txid = commitment.compute_txid();
	let vouts: Vec<u32> = commitment.output.iter().enumerate().filter(|(_, o)| o.value.to_sat() == PART_MSAT / 1000).map(|(i, _)| i as u32).collect();
	if vouts.len() != 2 {
		return format!("error {} HTLC outputs", vouts.len());
	}
	mine_transaction(&nodes[1], &commitment);
	let _ = nodes[1].node.get_and_clear_pending_msg_events();
	let _ = nodes[1].node.get_and_clear_pending_events();
	nodes[1].node.claim_funds(payment_preimage);
	let mon = nodes[1].chain_monitor.chain_monitor.get_monitor(chan_id).unwrap();
	let claims = lightning::chain::channelmonitor::verif_hooks::tracked_claims(&mon);
	let n = vouts.iter().filter(|v| claims.iter().any(|(t, o, _, _)| *t == txid && o == *v)).count();
	drop(mon);
	core::mem::forget(nodes);
	format!("{}", n)
}

/// filter_block_probe <dependent_input_position 0/1/2>
/// A block with two transactions is shown to the real `filter_block` of a live monitor: A spends the channel's
/// funding output (watched), B has two inputs, one of which (position 0 or 1; 2 = neither) spends an output of A.
/// Output: 1 if A is selected, 1 if B is selected (a transaction depending on a matched one in the same block must be).
fn filter_block_probe(a: &mut Vec<i128>) -> String {
	use bitcoin::{absolute::LockTime, transaction::Version, Amount, OutPoint, ScriptBuf, Sequence, Transaction, TxIn, TxOut, Witness};
	use bitcoin::hashes::Hash;
	let pos = a[0];
	let chanmon_cfgs = create_chanmon_cfgs(2);
	let node_cfgs = create_node_cfgs(2, &chanmon_cfgs);
	let node_chanmgrs = create_node_chanmgrs(2, &node_cfgs, &[None, None]);
	let nodes = create_network(2, &node_cfgs, &node_chanmgrs);
	let chan = create_announced_chan_between_nodes(&nodes, 0, 1);
	let chan_id = chan.2;
	let funding = chan.3;
	let funding_vout = funding.output.iter().position(|o| o.value.to_sat() == 100_000).unwrap_or(0) as u32;
	let txin = |op: OutPoint| TxIn { previous_output: op, script_sig: ScriptBuf::new(), sequence: Sequence::MAX, witness: Witness::new() };
	let txout = |v: u64| TxOut { value: Amount::from_sat(v), script_pubkey: ScriptBuf::new() };
	let tx_a = Transaction {
		version: Version::TWO,
		lock_time: LockTime::ZERO,
		input: vec![txin(OutPoint { txid: funding.compute_txid(), vout: funding_vout })],
		output: vec![txout(50_000), txout(40_000)],
	};
	let unrelated = |n: u8| OutPoint { txid: bitcoin::Txid::from_byte_array([n; 32]), vout: 0 };
	let dep = OutPoint { txid: tx_a.compute_txid(), vout: 1 };
	let inputs = match pos {
		0 => vec![txin(dep), txin(unrelated(7))],
		1 => vec![txin(unrelated(7)), txin(dep)],
		_ => vec![txin(unrelated(7)), txin(unrelated(8))],
	};
	let tx_b = Transaction { version: Version::TWO, lock_time: LockTime::ZERO, input: inputs, output: vec![txout(30_000)] };
	let mon = nodes[0].chain_monitor.chain_monitor.get_monitor(chan_id).unwrap();
	let sel = lightning::chain::channelmonitor::verif_hooks::filter_block_probe(&mon, &[tx_a.clone(), tx_b.clone()]);
	let res = format!("{} {}", sel.contains(&tx_a.compute_txid()) as u8, sel.contains(&tx_b.compute_txid()) as u8);
	drop(mon);
	core::mem::forget(nodes);
	res
}

/// persister_probe <max_pending_updates> <payments>
/// Two live nodes whose ChainMonitors persist through the real MonitorUpdatingPersister (public API) over an in-memory
/// key-value store. After the channel is open and after each of <payments> payments (alternating directions) the store
/// is read back the way a restart would (`read_all_channel_monitors_with_updates`) and compared with the monitor in
/// memory; finally node 0 force-closes and the check is repeated. Output: `<checks made> <checks in which the recovered
/// monitor was not at the in-memory monitor's update id, or recovery failed>` (an incremental update deleted too early,
/// written under a wrong id or not written at all shows up as a recovered monitor that is behind).
fn persister_probe(a: &mut Vec<i128>) -> String {
	use lightning::chain::chainmonitor::Persist;
	use lightning::util::persist::{KVStoreSync, MonitorUpdatingPersister, CHANNEL_MONITOR_PERSISTENCE_PRIMARY_NAMESPACE};
	use lightning::util::test_utils::{TestChainMonitor, TestStore};
	use std::sync::atomic::{AtomicBool, Ordering};
	/// the in-memory test store, able to refuse writes of full monitors on demand
	struct FlakyStore {
		inner: TestStore,
		fail_monitor_writes: AtomicBool,
	}
	impl KVStoreSync for FlakyStore {
		fn read(&self, p: &str, s: &str, k: &str) -> Result<Vec<u8>, lightning::io::Error> {
			KVStoreSync::read(&self.inner, p, s, k)
		}
		fn write(&self, p: &str, s: &str, k: &str, buf: Vec<u8>) -> Result<(), lightning::io::Error> {
			if p == CHANNEL_MONITOR_PERSISTENCE_PRIMARY_NAMESPACE && self.fail_monitor_writes.load(Ordering::SeqCst) {
				return Err(lightning::io::Error::new(lightning::io::ErrorKind::Other, "injected write failure"));
			}
			KVStoreSync::write(&self.inner, p, s, k, buf)
		}
		fn remove(&self, p: &str, s: &str, k: &str, lazy: bool) -> Result<(), lightning::io::Error> {
			KVStoreSync::remove(&self.inner, p, s, k, lazy)
		}
		fn list(&self, p: &str, s: &str) -> Result<Vec<String>, lightning::io::Error> {
			KVStoreSync::list(&self.inner, p, s)
		}
	}
	let max_pending = a[0] as u64;
	let payments = a[1] as usize;
	let chanmon_cfgs = create_chanmon_cfgs(2);
	let stores = [
		FlakyStore { inner: TestStore::new(false), fail_monitor_writes: AtomicBool::new(false) },
		FlakyStore { inner: TestStore::new(false), fail_monitor_writes: AtomicBool::new(false) },
	];
	let persisters: Vec<_> = (0..2).map(|i| MonitorUpdatingPersister::new(&stores[i], &chanmon_cfgs[i].logger, max_pending, &chanmon_cfgs[i].keys_manager,
		&chanmon_cfgs[i].keys_manager, &chanmon_cfgs[i].tx_broadcaster, &chanmon_cfgs[i].fee_estimator)).collect();
	let mut node_cfgs = create_node_cfgs(2, &chanmon_cfgs);
	for i in 0..2 {
		node_cfgs[i].chain_monitor = TestChainMonitor::new(Some(&chanmon_cfgs[i].chain_source), &chanmon_cfgs[i].tx_broadcaster, &chanmon_cfgs[i].logger,
			&chanmon_cfgs[i].fee_estimator, &persisters[i], &chanmon_cfgs[i].keys_manager);
	}
	let legacy_cfg = test_legacy_channel_config();
	let node_chanmgrs = create_node_chanmgrs(2, &node_cfgs, &[Some(legacy_cfg.clone()), Some(legacy_cfg)]);
	let nodes = create_network(2, &node_cfgs, &node_chanmgrs);
	let chan = create_announced_chan_between_nodes(&nodes, 0, 1);
	let (mut checks, mut stale) = (0u32, 0u32);
	let cleanup_failed = core::cell::Cell::new(false);
	let mut check = |nodes: &Vec<Node>| {
		for i in 0..2 {
			checks += 1;
			let live = nodes[i].chain_monitor.chain_monitor.get_monitor(chan.2).map(|m| m.get_latest_update_id());
			let live = match live {
				Ok(l) => l,
				Err(_) => { stale += 1; continue; },
			};
			match persisters[i].read_all_channel_monitors_with_updates() {
				Ok(v) if v.len() == 1 && v[0].1.get_latest_update_id() == live => {},
				_ => stale += 1,
			}
		}
	};
	check(&nodes);
	for k in 0..payments {
		let (s, r) = if k % 2 == 0 { (0, 1) } else { (1, 0) };
		send_payment(&nodes[s], &vec![&nodes[r]][..], if k == 0 { 8_000_000 } else { 21_000 + k as u64 });
		check(&nodes);
		// a new block: the full monitor is re-written without an update (chain-sync persist), at whatever update id it is at
		connect_blocks(&nodes[0], 1);
		connect_blocks(&nodes[1], 1);
		check(&nodes);
		if k == payments / 2 {
			// the public clean-up of superseded updates, while update files exist on top of the stored monitors
			for p in persisters.iter() {
				if p.cleanup_stale_updates(false).is_err() {
					cleanup_failed.set(true);
				}
			}
			check(&nodes);
		}
	}
	// a full-monitor write that FAILS must not cost any update that was reported persisted: re-persist, through node 0's
	// persister, the stored update with the highest id that is written as a full monitor, while the store refuses monitors
	if max_pending != 0 {
		// (one more payment and no block after it, so that the stored full monitor is behind and the updates count)
		send_payment(&nodes[0], &vec![&nodes[1]][..], 33_000);
		check(&nodes);
		let upds = nodes[0].chain_monitor.monitor_updates.lock().unwrap().get(&chan.2).cloned().unwrap_or_default();
		if let Some(upd) = upds.iter().rev().find(|u| u.update_id != u64::MAX && u.update_id % max_pending == 0) {
			let mon = nodes[0].chain_monitor.chain_monitor.get_monitor(chan.2).unwrap();
			stores[0].fail_monitor_writes.store(true, Ordering::SeqCst);
			let _ = persisters[0].update_persisted_channel(mon.persistence_key(), Some(upd), &mon);
			stores[0].fail_monitor_writes.store(false, Ordering::SeqCst);
			drop(mon);
			check(&nodes);
		}
	}
	let node_id_1 = nodes[1].node.get_our_node_id();
	let message = "closing".to_owned();
	nodes[0].node.force_close_broadcasting_latest_txn(&chan.2, &node_id_1, message.clone()).unwrap();
	check_closed_event(&nodes[0], 1, lightning::events::ClosureReason::HolderForceClosed { broadcasted_latest_txn: Some(true), message }, &[node_id_1], 100000);
	check_closed_broadcast(&nodes[0], 1, true);
	check_added_monitors(&nodes[0], 1);
	check(&nodes);
	let out = format!("{} {}", checks, stale + cleanup_failed.get() as u32);
	nodes[1].node.get_and_clear_pending_msg_events();
	core::mem::forget(nodes);
	out
}

/// persister_battery <payments>: persister_probe for maximum_pending_updates 0, 1, 2, 3, 4, 5, 7 and 100.
/// Output: `<checks that failed or runs that panicked> <checks made>`.
fn persister_battery(a: &mut Vec<i128>) -> String {
	let payments = a[0];
	let (mut bad, mut total) = (0u32, 0u32);
	for mp in [0i128, 1, 2, 3, 4, 5, 7, 100] {
		match catch_unwind(AssertUnwindSafe(|| persister_probe(&mut vec![mp, payments]))) {
			Ok(out) => {
				let t: Vec<u32> = out.split_whitespace().filter_map(|x| x.parse().ok()).collect();
				if t.len() == 2 {
					total += t[0];
					bad += t[1];
				} else {
					bad += 1;
				}
			},
			Err(_) => bad += 1,
		}
	}
	format!("{} {}", bad, total)
}

/// payment_outcome_probe <scenario>: three live nodes in a line (0 - 1 - 2), one payment from 0 to 2. The test utilities
/// used to drive the payment assert the exact events the payer produces at every step (a missing or additional
/// PaymentSent / PaymentFailed / PaymentPathFailed panics), and afterwards no event may be left over.
///   1 the recipient claims; 2 the recipient fails it (no retries); 3 a second send under the same payment id while the
///   first is pending must be refused, then the first is claimed; 4 the payer abandons the payment while its HTLC is in
///   flight - no event yet - and the recipient then claims it anyway: reported sent, never failed;
///   5 two payments in turn, the first failed, the second claimed.
/// Output: `1` if everything was as it must be, `0 <what>` otherwise.
fn payment_outcome_probe(a: &mut Vec<i128>) -> String {
	use lightning::ln::channelmanager::PaymentId;
	use lightning::ln::outbound_payment::RecipientOnionFields;
	let scenario = a[0];
	let chanmon_cfgs = create_chanmon_cfgs(3);
	let node_cfgs = create_node_cfgs(3, &chanmon_cfgs);
	let node_chanmgrs = create_node_chanmgrs(3, &node_cfgs, &[None, None, None]);
	let nodes = create_network(3, &node_cfgs, &node_chanmgrs);
	create_announced_chan_between_nodes(&nodes, 0, 1);
	create_announced_chan_between_nodes(&nodes, 1, 2);
	let path = [&nodes[1], &nodes[2]];
	let mut verdict = String::from("1");
	match scenario {
		1 => {
			send_payment(&nodes[0], &path, 1_000_000);
		},
		2 => {
			let (_, hash, _, _) = route_payment(&nodes[0], &path, 1_000_000);
			fail_payment(&nodes[0], &path, hash);
		},
		3 => {
			let (route, hash, preimage, secret) = lightning::get_route_and_payment_hash!(nodes[0], nodes[2], 1_000_000);
			let id = PaymentId(hash.0);
			nodes[0].node.send_payment_with_route(route.clone(), hash, RecipientOnionFields::secret_only(secret, 1_000_000), id).unwrap();
			check_added_monitors(&nodes[0], 1);
			if nodes[0].node.send_payment_with_route(route.clone(), hash, RecipientOnionFields::secret_only(secret, 1_000_000), id).is_ok() {
				verdict = String::from("0 duplicate payment id accepted");
			}
			let mut events = nodes[0].node.get_and_clear_pending_msg_events();
			let ev = remove_first_msg_event_to_node(&nodes[1].node.get_our_node_id(), &mut events);
			pass_along_path(&nodes[0], &path, 1_000_000, hash, Some(secret), ev, true, None);
			claim_payment(&nodes[0], &path, preimage);
		},
		4 => {
			let (preimage, _hash, _, id) = route_payment(&nodes[0], &path, 1_000_000);
			nodes[0].node.abandon_payment(id);
			if !nodes[0].node.get_and_clear_pending_events().is_empty() {
				verdict = String::from("0 terminal event while an HTLC was in flight");
			}
			claim_payment(&nodes[0], &path, preimage);
		},
		_ => {
			let (_, hash, _, _) = route_payment(&nodes[0], &path, 1_000_000);
			fail_payment(&nodes[0], &path, hash);
			send_payment(&nodes[0], &path, 2_000_000);
		},
	}
	if !nodes[0].node.get_and_clear_pending_events().is_empty() && verdict == "1" {
		verdict = String::from("0 events left over at the payer");
	}
	if !nodes[0].node.list_recent_payments().iter().all(|p| !matches!(p, lightning::ln::channelmanager::RecentPaymentDetails::Pending { .. })) && verdict == "1" {
		verdict = String::from("0 a resolved payment is still listed as pending");
	}
	for n in nodes.iter() {
		n.node.get_and_clear_pending_msg_events();
		n.node.get_and_clear_pending_events();
	}
	core::mem::forget(nodes);
	verdict
}

/// mpp_outcome_probe: four live nodes in a diamond (0 - 1 - 3, 0 - 2 - 3); node 0 pays node 3 in two parts with no retries.
/// The part via node 1 reaches the recipient, the part via node 2 is sent by node 0 but not delivered any further (it
/// stays in flight). The recipient gives up waiting for the rest (MPP timeout) and fails the part it holds back to
/// node 0. At that moment the payment still has an HTLC in flight: node 0 must report the path failure and NO terminal
/// event. Output: `1` if so, `0 <what>` otherwise.
fn mpp_outcome_probe(_a: &mut Vec<i128>) -> String {
	use lightning::events::{Event, HTLCHandlingFailureType};
	use lightning::ln::channelmanager::PaymentId;
	use lightning::ln::msgs::{ChannelMessageHandler, MessageSendEvent};
	use lightning::ln::outbound_payment::{RecipientOnionFields, Retry};
	use lightning::routing::router::{PaymentParameters, RouteParameters, Router};
	let chanmon_cfgs = create_chanmon_cfgs(4);
	let node_cfgs = create_node_cfgs(4, &chanmon_cfgs);
	let mut legacy_cfg = test_legacy_channel_config();
	legacy_cfg.channel_handshake_config.announced_channel_max_inbound_htlc_value_in_flight_percentage = 10;
	let configs: [Option<lightning::util::config::UserConfig>; 4] = core::array::from_fn(|_| Some(legacy_cfg.clone()));
	let node_chanmgrs = create_node_chanmgrs(4, &node_cfgs, &configs);
	let nodes = create_network(4, &node_cfgs, &node_chanmgrs);
	let ids: Vec<_> = nodes.iter().map(|n| n.node.get_our_node_id()).collect();
	create_announced_chan_between_nodes(&nodes, 0, 1);
	create_announced_chan_between_nodes_with_value(&nodes, 0, 2, 1_000_000, 0);
	let chan_13 = create_announced_chan_between_nodes_with_value(&nodes, 1, 3, 1_000_000, 0).2;
	create_announced_chan_between_nodes(&nodes, 2, 3);
	let (_preimage, hash, payment_secret) = get_payment_preimage_hash(&nodes[3], None, None);
	let payment_params = PaymentParameters::from_node_id(ids[3], TEST_FINAL_CLTV).with_bolt11_features(nodes[3].node.bolt11_invoice_features()).unwrap();
	let amt_msat = 10_000_000;
	let route_params = RouteParameters::from_payment_params_and_value(payment_params, amt_msat);
	let inflight = nodes[0].node.compute_inflight_htlcs();
	let route = nodes[0].router.find_route(&ids[0], &route_params, None, inflight).unwrap();
	if route.paths.len() != 2 {
		return format!("error expected a two-part route, got {} parts", route.paths.len());
	}
	nodes[0].router.expect_find_route(route_params.clone(), Ok(route.clone()));
	nodes[0].node.send_payment(hash, RecipientOnionFields::secret_only(payment_secret, amt_msat), PaymentId(hash.0), route_params, Retry::Attempts(0)).unwrap();
	check_added_monitors(&nodes[0], 2);
	let mut send_msgs = nodes[0].node.get_and_clear_pending_msg_events();
	send_msgs.sort_by(|x, _| {
		let id = if let MessageSendEvent::UpdateHTLCs { node_id, .. } = x { node_id } else { panic!() };
		if *id == ids[1] { core::cmp::Ordering::Less } else { core::cmp::Ordering::Greater }
	});
	let msg_via_1 = send_msgs.remove(0);
	pass_along_path(&nodes[0], &[&nodes[1], &nodes[3]], amt_msat, hash, Some(payment_secret), msg_via_1, false, None);
	// the recipient waits for the second part in vain
	for _ in 0..3 {
		nodes[3].node.timer_tick_occurred();
	}
	expect_and_process_pending_htlcs_and_htlc_handling_failed(&nodes[3], &[HTLCHandlingFailureType::Receive { payment_hash: hash }]);
	check_added_monitors(&nodes[3], 1);
	let upd = get_htlc_update_msgs(&nodes[3], &ids[1]);
	nodes[1].node.handle_update_fail_htlc(ids[3], &upd.update_fail_htlcs[0]);
	do_commitment_signed_dance(&nodes[1], &nodes[3], &upd.commitment_signed, false, false);
	expect_and_process_pending_htlcs_and_htlc_handling_failed(&nodes[1], &[HTLCHandlingFailureType::Forward { node_id: Some(ids[3]), channel_id: chan_13 }]);
	check_added_monitors(&nodes[1], 1);
	let upd = get_htlc_update_msgs(&nodes[1], &ids[0]);
	nodes[0].node.handle_update_fail_htlc(ids[1], &upd.update_fail_htlcs[0]);
	do_commitment_signed_dance(&nodes[0], &nodes[1], &upd.commitment_signed, false, false);
	let evs = nodes[0].node.get_and_clear_pending_events();
	let n_path = evs.iter().filter(|e| matches!(e, Event::PaymentPathFailed { .. })).count();
	let n_failed = evs.iter().filter(|e| matches!(e, Event::PaymentFailed { .. })).count();
	let n_sent = evs.iter().filter(|e| matches!(e, Event::PaymentSent { .. })).count();
	let verdict = if n_failed != 0 {
		String::from("0 PaymentFailed while an HTLC of the payment is still in flight")
	} else if n_path != 1 || n_sent != 0 {
		format!("0 {} path failures, {} PaymentSent for one failed part", n_path, n_sent)
	} else {
		String::from("1")
	};
	for n in nodes.iter() {
		n.node.get_and_clear_pending_msg_events();
		n.node.get_and_clear_pending_events();
		n.chain_monitor.added_monitors.lock().unwrap().clear();
	}
	core::mem::forget(nodes);
	verdict
}

/// payment_restart_probe: an outbound HTLC times out on-chain after the payer force-closed. The user's event handler
/// handles the PaymentPathFailed but asks for a replay of the terminal PaymentFailed; the node then restarts from the
/// ChannelManager persisted BEFORE the events and the latest ChannelMonitor. The terminal event was never handled, so the
/// restarted node must produce it again and must not keep listing the payment as pending. Output: `1` / `0 <what>`.
fn payment_restart_probe(_a: &mut Vec<i128>) -> String {
	use lightning::events::{ClosureReason, Event, EventsProvider, ReplayEvent};
	use lightning::util::ser::Writeable;
	const LATENCY_GRACE_PERIOD_BLOCKS: u32 = 3;
	const BREAKDOWN_TIMEOUT: u16 = 6 * 24;
	const ANTI_REORG_DELAY: u32 = 6;
	let chanmon_cfgs = create_chanmon_cfgs(2);
	let node_cfgs = create_node_cfgs(2, &chanmon_cfgs);
	let persister;
	let chain_monitor;
	let legacy_cfg = test_legacy_channel_config();
	let node_chanmgrs = create_node_chanmgrs(2, &node_cfgs, &[Some(legacy_cfg.clone()), Some(legacy_cfg)]);
	let node_a_reload;
	let mut nodes = create_network(2, &node_cfgs, &node_chanmgrs);
	let node_a_id = nodes[0].node.get_our_node_id();
	let node_b_id = nodes[1].node.get_our_node_id();
	let (_, _, chan_id, funding_tx) = create_announced_chan_between_nodes(&nodes, 0, 1);
	let message = "Channel force-closed".to_owned();
	let (_preimage, payment_hash, _, payment_id) = route_payment(&nodes[0], &[&nodes[1]], 10_000_000);
	nodes[0].node.force_close_broadcasting_latest_txn(&chan_id, &node_b_id, message.clone()).unwrap();
	check_closed_broadcast(&nodes[0], 1, true);
	check_added_monitors(&nodes[0], 1);
	check_closed_event(&nodes[0], 1, ClosureReason::HolderForceClosed { broadcasted_latest_txn: Some(true), message }, &[node_b_id], 100000);
	nodes[0].node.peer_disconnected(node_b_id);
	nodes[1].node.peer_disconnected(node_a_id);
	connect_blocks(&nodes[0], TEST_FINAL_CLTV + LATENCY_GRACE_PERIOD_BLOCKS + 1);
	let (commitment_tx, htlc_timeout_tx) = {
		let mut txn = nodes[0].tx_broadcaster.unique_txn_broadcast();
		if txn.len() != 2 {
			return format!("error expected commitment + HTLC-timeout, got {} transactions", txn.len());
		}
		lightning::check_spends!(txn[0], funding_tx);
		lightning::check_spends!(txn[1], txn[0]);
		(txn.remove(0), txn.remove(0))
	};
	mine_transaction(&nodes[0], &commitment_tx);
	connect_blocks(&nodes[0], BREAKDOWN_TIMEOUT as u32 - 1);
	mine_transaction(&nodes[0], &htlc_timeout_tx);
	connect_blocks(&nodes[0], ANTI_REORG_DELAY - 1);
	check_added_monitors(&nodes[0], 0);
	let node_a_ser = nodes[0].node.encode();
	let path_failed_handled = core::cell::Cell::new(0);
	let payment_failed_seen = core::cell::Cell::new(0);
	let handler = |ev: Event| -> Result<(), ReplayEvent> {
		match ev {
			Event::PaymentPathFailed { .. } => { path_failed_handled.set(path_failed_handled.get() + 1); Ok(()) },
			Event::PaymentFailed { .. } => { payment_failed_seen.set(payment_failed_seen.get() + 1); Err(ReplayEvent()) },
			_ => Ok(()),
		}
	};
	nodes[0].node.process_pending_events(&handler);
	let mut verdict = String::from("1");
	if path_failed_handled.get() != 1 || payment_failed_seen.get() != 1 {
		verdict = format!("0 before the restart: {} path failures, {} PaymentFailed", path_failed_handled.get(), payment_failed_seen.get());
	}
	nodes[0].chain_monitor.added_monitors.lock().unwrap().clear();
	let mon_ser = lightning::get_monitor!(nodes[0], chan_id).encode();
	lightning::reload_node!(nodes[0], &node_a_ser, &[&mon_ser], persister, chain_monitor, node_a_reload);
	let events = nodes[0].node.get_and_clear_pending_events();
	nodes[0].chain_monitor.added_monitors.lock().unwrap().clear();
	let got = events.iter().any(|ev| matches!(ev, Event::PaymentFailed { payment_id: id, payment_hash: h, .. } if *id == payment_id && *h == Some(payment_hash)));
	let n_failed = events.iter().filter(|ev| matches!(ev, Event::PaymentFailed { .. })).count();
	if verdict == "1" && !got {
		verdict = String::from("0 no terminal event after the restart although it was never handled");
	} else if verdict == "1" && n_failed != 1 {
		verdict = format!("0 {} PaymentFailed events after the restart", n_failed);
	} else if verdict == "1" && !nodes[0].node.list_recent_payments().is_empty() {
		verdict = String::from("0 the failed payment is still listed after its terminal event");
	}
	for n in nodes.iter() {
		n.node.get_and_clear_pending_msg_events();
		n.node.get_and_clear_pending_events();
		n.chain_monitor.added_monitors.lock().unwrap().clear();
	}
	core::mem::forget(nodes);
	verdict
}

/// bolt12_restart_probe: a payer that handles BOLT 12 invoices manually persists its ChannelManager after the
/// InvoiceReceived event (payment known, nothing sent yet), pays the invoice (the HTLC is committed in the
/// ChannelMonitor) and restarts from that older ChannelManager and the latest ChannelMonitor. The HTLC is in flight, so
/// after the restart the payment must be listed as pending and paying the invoice again must be refused, and no
/// terminal event may appear. Output: `1` / `0 <what>`.
#[allow(deprecated)]
fn bolt12_restart_probe(_a: &mut Vec<i128>) -> String {
	use lightning::blinded_path::payment::DummyTlvs;
	use lightning::routing::router::DEFAULT_PAYMENT_DUMMY_HOPS;
	use lightning::events::{ClosureReason, Event};
	use lightning::ln::channelmanager::{PaymentId, RecentPaymentDetails};
	use lightning::ln::outbound_payment::Bolt12PaymentError;
	use lightning::ln::msgs::OnionMessageHandler;
	use lightning::util::ser::Writeable;
	let mut manually_pay_cfg = test_legacy_channel_config();
	manually_pay_cfg.manually_handle_bolt12_invoices = true;
	let chanmon_cfgs = create_chanmon_cfgs(2);
	let node_cfgs = create_node_cfgs(2, &chanmon_cfgs);
	let persister;
	let chain_monitor;
	let node_chanmgrs = create_node_chanmgrs(2, &node_cfgs, &[Some(test_legacy_channel_config()), Some(manually_pay_cfg.clone())]);
	let bob_deserialized;
	let mut nodes = create_network(2, &node_cfgs, &node_chanmgrs);
	let chan_id = create_announced_chan_between_nodes_with_value(&nodes, 0, 1, 10_000_000, 1_000_000_000).2;
	let alice_id = nodes[0].node.get_our_node_id();
	let bob_id = nodes[1].node.get_our_node_id();
	let amt_msat = 10_000_000;
	let offer = nodes[0].node.create_offer_builder().unwrap().amount_msats(amt_msat).build().unwrap();
	let payment_id = PaymentId([1; 32]);
	nodes[1].node.pay_for_offer(&offer, None, payment_id, Default::default()).unwrap();
	let onion_message = nodes[1].onion_messenger.next_onion_message_for_peer(alice_id).unwrap();
	nodes[0].onion_messenger.handle_onion_message(bob_id, &onion_message);
	let onion_message = nodes[0].onion_messenger.next_onion_message_for_peer(bob_id).unwrap();
	nodes[1].onion_messenger.handle_onion_message(alice_id, &onion_message);
	let mut events = nodes[1].node.get_and_clear_pending_events();
	let (invoice, context) = match events.pop() {
		Some(Event::InvoiceReceived { invoice, context, .. }) => (invoice, context),
		_ => return String::from("error no InvoiceReceived event"),
	};
	let bob_ser = nodes[1].node.encode();
	if nodes[1].node.send_payment_for_bolt12_invoice(&invoice, context.as_ref()).is_err() {
		return String::from("error the invoice could not be paid");
	}
	check_added_monitors(&nodes[1], 1);
	let mut msg_events = nodes[1].node.get_and_clear_pending_msg_events();
	let ev = remove_first_msg_event_to_node(&alice_id, &mut msg_events);
	{
		let path = [&nodes[0]];
		let dummy = [DummyTlvs::default(); DEFAULT_PAYMENT_DUMMY_HOPS];
		let args = PassAlongPathArgs::new(&nodes[1], &path, invoice.amount_msats(), invoice.payment_hash(), ev)
			.without_clearing_recipient_events()
			.with_dummy_tlvs(&dummy);
		do_pass_along_path(args);
	}
	let monitor = lightning::get_monitor!(nodes[1], chan_id).encode();
	lightning::reload_node!(nodes[1], manually_pay_cfg, &bob_ser, &[&monitor], persister, chain_monitor, bob_deserialized);
	check_closed_event(&nodes[1], 1, ClosureReason::OutdatedChannelManager, &[alice_id], 10_000_000);
	check_added_monitors(&nodes[1], 1);
	let mut verdict = String::from("1");
	let listed = nodes[1].node.list_recent_payments();
	if listed.len() != 1 || !matches!(listed[0], RecentPaymentDetails::Pending { payment_id: id, .. } if id == payment_id) {
		verdict = String::from("0 an HTLC is in flight after the restart but the payment is not listed as pending");
	}
	if verdict == "1" {
		match nodes[1].node.send_payment_for_bolt12_invoice(&invoice, context.as_ref()) {
			Err(Bolt12PaymentError::DuplicateInvoice) => {},
			_ => verdict = String::from("0 the invoice was accepted for payment again while an HTLC is in flight"),
		}
	}
	let events = nodes[1].node.get_and_clear_pending_events();
	if verdict == "1" && events.iter().any(|e| matches!(e, Event::PaymentFailed { .. } | Event::PaymentSent { .. })) {
		verdict = String::from("0 terminal event while the HTLC is in flight");
	}
	for n in nodes.iter() {
		n.node.get_and_clear_pending_msg_events();
		n.node.get_and_clear_pending_events();
		n.chain_monitor.added_monitors.lock().unwrap().clear();
		n.tx_broadcaster.txn_broadcast();
	}
	core::mem::forget(nodes);
	verdict
}

/// mpp_inprogress_probe: two nodes, two channels between them; node 0 sends a two-part payment. The part over the first
/// channel is committed but its monitor update is still in progress (the HTLC is in flight); the part over the second
/// channel (no liquidity on our side) fails at once, and the retry finds no route. While the first part is pending the
/// payer must not report PaymentFailed, must keep listing the payment and must refuse the payment id for a new send.
/// Output: `1` / `0 <what>`.
fn mpp_inprogress_probe(_a: &mut Vec<i128>) -> String {
	use lightning::chain::ChannelMonitorUpdateStatus;
	use lightning::events::Event;
	use lightning::ln::channelmanager::PaymentId;
	use lightning::ln::outbound_payment::{RecipientOnionFields, Retry, RetryableSendFailure};
	use lightning::routing::router::{Path, PaymentParameters, Route, RouteHop, RouteParameters};
	use lightning::types::features::Bolt11InvoiceFeatures;
	let chanmon_cfgs = create_chanmon_cfgs(2);
	let node_cfgs = create_node_cfgs(2, &chanmon_cfgs);
	let legacy_cfg = test_legacy_channel_config();
	let node_chanmgrs = create_node_chanmgrs(2, &node_cfgs, &[Some(legacy_cfg.clone()), Some(legacy_cfg)]);
	let nodes = create_network(2, &node_cfgs, &node_chanmgrs);
	let node_b_id = nodes[1].node.get_our_node_id();
	let chan_1 = create_announced_chan_between_nodes(&nodes, 0, 1);
	let chan_1_scid = chan_1.0.contents.short_channel_id;
	let chan_2 = create_announced_chan_between_nodes_with_value(&nodes, 0, 1, 1_000_000, 989_000_000);
	let chan_2_scid = chan_2.0.contents.short_channel_id;
	let amt_msat = 10_000_000;
	let (_, payment_hash, _preimage, payment_secret) = lightning::get_route_and_payment_hash!(&nodes[0], nodes[1], amt_msat);
	let expiry = std::time::SystemTime::UNIX_EPOCH.elapsed().unwrap().as_secs() + 60 * 60;
	let mut feats = Bolt11InvoiceFeatures::empty();
	feats.set_variable_length_onion_required();
	feats.set_payment_secret_required();
	feats.set_basic_mpp_optional();
	let payment_params = PaymentParameters::from_node_id(node_b_id, TEST_FINAL_CLTV).with_expiry_time(expiry).with_bolt11_features(feats).unwrap();
	let mut route_params = RouteParameters::from_payment_params_and_value(payment_params, amt_msat);
	route_params.max_total_routing_fee_msat = None;
	let hop = |scid: u64, amt: u64| RouteHop {
		pubkey: node_b_id,
		node_features: nodes[1].node.node_features(),
		short_channel_id: scid,
		channel_features: nodes[1].node.channel_features(),
		fee_msat: amt,
		cltv_expiry_delta: 100,
		maybe_announced_channel: true,
	};
	let send_route = Route {
		paths: vec![
			Path { hops: vec![hop(chan_1_scid, amt_msat / 2)], blinded_tail: None },
			Path { hops: vec![hop(chan_2_scid, amt_msat / 2)], blinded_tail: None },
		],
		route_params: route_params.clone(),
	};
	nodes[0].router.expect_find_route(route_params.clone(), Ok(send_route));
	let mut retry_payment_params = route_params.payment_params.clone();
	retry_payment_params.previously_failed_channels.push(chan_2_scid);
	let mut retry_params = RouteParameters::from_payment_params_and_value(retry_payment_params, amt_msat / 2);
	retry_params.max_total_routing_fee_msat = None;
	nodes[0].router.expect_find_route(retry_params, Err("no route for the retry"));
	chanmon_cfgs[0].persister.set_update_ret(ChannelMonitorUpdateStatus::InProgress);
	let onion = RecipientOnionFields::secret_only(payment_secret, amt_msat);
	let id = PaymentId(payment_hash.0);
	nodes[0].node.send_payment(payment_hash, onion.clone(), id, route_params.clone(), Retry::Attempts(1)).unwrap();
	check_added_monitors(&nodes[0], 1);
	let mut verdict = String::from("1");
	if !nodes[0].node.get_and_clear_pending_msg_events().is_empty() {
		verdict = String::from("0 the HTLC left before its monitor update completed");
	}
	let events = nodes[0].node.get_and_clear_pending_events();
	if events.iter().any(|e| matches!(e, Event::PaymentFailed { .. })) {
		verdict = String::from("0 PaymentFailed while an HTLC of the payment is still in flight");
	} else if verdict == "1" && events.iter().filter(|e| matches!(e, Event::PaymentPathFailed { .. })).count() != 1 {
		verdict = format!("0 {} events for one failed part", events.len());
	}
	if verdict == "1" && nodes[0].node.list_recent_payments().len() != 1 {
		verdict = String::from("0 the payment is no longer tracked although an HTLC is in flight");
	}
	if verdict == "1" {
		match nodes[0].node.send_payment(payment_hash, onion, id, route_params, Retry::Attempts(0)) {
			Err(RetryableSendFailure::DuplicatePayment) => {},
			_ => verdict = String::from("0 the payment id was accepted again while an HTLC is in flight"),
		}
	}
	for n in nodes.iter() {
		n.node.get_and_clear_pending_msg_events();
		n.node.get_and_clear_pending_events();
		n.chain_monitor.added_monitors.lock().unwrap().clear();
	}
	core::mem::forget(nodes);
	verdict
}

/// payment_outcome_battery: scenarios 1-5 of payment_outcome_probe, mpp_outcome_probe, mpp_inprogress_probe, payment_restart_probe and bolt12_restart_probe. Output: `<scenarios that failed or panicked> <scenarios run>`.
fn payment_outcome_battery(_a: &mut Vec<i128>) -> String {
	let (mut bad, mut total) = (0u32, 4u32);
	match catch_unwind(AssertUnwindSafe(|| bolt12_restart_probe(&mut vec![]))) {
		Ok(v) if v == "1" => {},
		_ => bad += 1,
	}
	match catch_unwind(AssertUnwindSafe(|| mpp_inprogress_probe(&mut vec![]))) {
		Ok(v) if v == "1" => {},
		_ => bad += 1,
	}
	match catch_unwind(AssertUnwindSafe(|| mpp_outcome_probe(&mut vec![]))) {
		Ok(v) if v == "1" => {},
		_ => bad += 1,
	}
	match catch_unwind(AssertUnwindSafe(|| payment_restart_probe(&mut vec![]))) {
		Ok(v) if v == "1" => {},
		_ => bad += 1,
	}
	for sc in 1i128..=5 {
		total += 1;
		match catch_unwind(AssertUnwindSafe(|| payment_outcome_probe(&mut vec![sc]))) {
			Ok(v) if v == "1" => {},
			_ => bad += 1,
		}
	}
	format!("{} {}", bad, total)
}

/// monitor_update_probe <scenario>: two live nodes; a persister answers InProgress for one monitor update.
///   1 at the SENDER: the payment's update_add_htlc / commitment_signed must not leave the node until the update is reported
///     complete (ChainMonitor::channel_monitor_updated), and then exactly that one message batch leaves;
///   2 at the RECEIVER of a commitment_signed: neither revoke_and_ack nor its own commitment_signed may leave until the
///     update is complete, then both leave, revoke_and_ack first;
///   3 as 2, but a completion is first reported for an update id that is NOT the pending one: nothing may be released.
/// Output: `1` if so, `0 <what>` otherwise.
fn monitor_update_probe(a: &mut Vec<i128>) -> String {
	use lightning::chain::ChannelMonitorUpdateStatus;
	use lightning::ln::channelmanager::PaymentId;
	use lightning::ln::msgs::{ChannelMessageHandler, MessageSendEvent};
	use lightning::ln::outbound_payment::RecipientOnionFields;
	let scenario = a[0];
	let chanmon_cfgs = create_chanmon_cfgs(2);
	let node_cfgs = create_node_cfgs(2, &chanmon_cfgs);
	let node_chanmgrs = create_node_chanmgrs(2, &node_cfgs, &[None, None]);
	let nodes = create_network(2, &node_cfgs, &node_chanmgrs);
	let (id_a, id_b) = (nodes[0].node.get_our_node_id(), nodes[1].node.get_our_node_id());
	let chan_id = create_announced_chan_between_nodes(&nodes, 0, 1).2;
	let (route, hash, _preimage, secret) = lightning::get_route_and_payment_hash!(nodes[0], nodes[1], 1_000_000);
	let mut verdict = String::from("1");
	if scenario == 1 {
		chanmon_cfgs[0].persister.set_update_ret(ChannelMonitorUpdateStatus::InProgress);
		nodes[0].node.send_payment_with_route(route, hash, RecipientOnionFields::secret_only(secret, 1_000_000), PaymentId(hash.0)).unwrap();
		check_added_monitors(&nodes[0], 1);
		if !nodes[0].node.get_and_clear_pending_msg_events().is_empty() {
			verdict = String::from("0 the HTLC left the sender before its monitor update was complete");
		}
		chanmon_cfgs[0].persister.set_update_ret(ChannelMonitorUpdateStatus::Completed);
		let (latest, _) = nodes[0].chain_monitor.get_latest_mon_update_id(chan_id);
		nodes[0].chain_monitor.chain_monitor.channel_monitor_updated(chan_id, latest).unwrap();
		let evs = nodes[0].node.get_and_clear_pending_msg_events();
		let ok = evs.len() == 1 && matches!(&evs[0], MessageSendEvent::UpdateHTLCs { node_id, updates, .. } if *node_id == id_b && updates.update_add_htlcs.len() == 1 && updates.commitment_signed.len() == 1);
		if !ok && verdict == "1" {
			verdict = String::from("0 completion did not release exactly the held update_add_htlc + commitment_signed");
		}
	} else {
		nodes[0].node.send_payment_with_route(route, hash, RecipientOnionFields::secret_only(secret, 1_000_000), PaymentId(hash.0)).unwrap();
		check_added_monitors(&nodes[0], 1);
		let mut evs = nodes[0].node.get_and_clear_pending_msg_events();
		let send = SendEvent::from_event(evs.pop().unwrap());
		nodes[1].node.handle_update_add_htlc(id_a, &send.msgs[0]);
		chanmon_cfgs[1].persister.set_update_ret(ChannelMonitorUpdateStatus::InProgress);
		nodes[1].node.handle_commitment_signed_batch_test(id_a, &send.commitment_msg);
		check_added_monitors(&nodes[1], 1);
		if !nodes[1].node.get_and_clear_pending_msg_events().is_empty() {
			verdict = String::from("0 the receiver answered a commitment_signed before its monitor update was complete");
		}
		chanmon_cfgs[1].persister.set_update_ret(ChannelMonitorUpdateStatus::Completed);
		let (latest, _) = nodes[1].chain_monitor.get_latest_mon_update_id(chan_id);
		if scenario == 3 {
			nodes[1].chain_monitor.chain_monitor.channel_monitor_updated(chan_id, latest + 7).unwrap();
			if !nodes[1].node.get_and_clear_pending_msg_events().is_empty() && verdict == "1" {
				verdict = String::from("0 a completion for another update id released the held messages");
			}
		}
		nodes[1].chain_monitor.chain_monitor.channel_monitor_updated(chan_id, latest).unwrap();
		let evs = nodes[1].node.get_and_clear_pending_msg_events();
		let ok = evs.len() == 2
			&& matches!(&evs[0], MessageSendEvent::SendRevokeAndACK { node_id, .. } if *node_id == id_a)
			&& matches!(&evs[1], MessageSendEvent::UpdateHTLCs { node_id, updates, .. } if *node_id == id_a && updates.commitment_signed.len() == 1);
		if !ok && verdict == "1" {
			verdict = format!("0 completion released {} message batches instead of revoke_and_ack followed by commitment_signed", evs.len());
		}
	}
	for n in nodes.iter() {
		n.node.get_and_clear_pending_msg_events();
		n.node.get_and_clear_pending_events();
		n.chain_monitor.added_monitors.lock().unwrap().clear();
	}
	core::mem::forget(nodes);
	verdict
}

/// What a stand-alone restart of a node found: Err(what) when reading failed or something panicked upstream.
struct RestartOutcome {
	closed_outdated: bool,
	channels: usize,
	broadcast: usize,
	monitor_update_id: u64,
	/// with a peer given: revoke_and_ack / update batches the restarted node sent after channel_reestablish
	released: usize,
}

/// Reads `mgr` (a serialized ChannelManager of `node`) against `mon` (a serialized ChannelMonitor of the same node), the
/// way a restarting node does: fresh persister and chain monitor, ChannelManager::read, the monitor handed to the chain
/// monitor, then the pending (background) events processed. Nothing of this is dropped afterwards (leaked on purpose).
fn standalone_restart<'a, 'b, 'c>(node: &Node<'a, 'b, 'c>, mgr: &[u8], mon: &[u8], peer: Option<&Node<'a, 'b, 'c>>) -> Result<RestartOutcome, String> {
	use lightning::chain::{BlockLocator, ChannelMonitorUpdateStatus};
	use lightning::chain::channelmonitor::ChannelMonitor;
	use lightning::events::{ClosureReason, Event};
	use lightning::ln::channelmanager::ChannelManagerReadArgs;
	use lightning::util::ser::ReadableArgs;
	use lightning::util::test_channel_signer::TestChannelSigner;
	use lightning::util::test_utils::{TestChainMonitor, TestPersister};
	node.tx_broadcaster.txn_broadcast();
	let persister: &TestPersister = Box::leak(Box::new(TestPersister::new()));
	let chain_monitor: &TestChainMonitor<'c> = Box::leak(Box::new(TestChainMonitor::new(
		Some(node.chain_source), node.tx_broadcaster, node.logger, node.fee_estimator, persister, node.keys_manager,
	)));
	let mut mon_read = &mon[..];
	let (_, monitor) = <(BlockLocator, ChannelMonitor<TestChannelSigner>)>::read(&mut mon_read, (node.keys_manager, node.keys_manager))
		.map_err(|e| format!("the monitor could not be read: {:?}", e))?;
	let channel_id = monitor.channel_id();
	let mut mgr_read = &mgr[..];
	let manager: &TestChannelManager = {
		let mut channel_monitors = lightning::util::hash_tables::new_hash_map();
		channel_monitors.insert(channel_id, &monitor);
		let res = <(BlockLocator, TestChannelManager)>::read(
			&mut mgr_read,
			ChannelManagerReadArgs {
				config: node.node.get_current_config(),
				entropy_source: node.keys_manager,
				node_signer: node.keys_manager,
				signer_provider: node.keys_manager,
				fee_estimator: node.fee_estimator,
				router: node.router,
				message_router: node.message_router,
				chain_monitor,
				tx_broadcaster: node.tx_broadcaster,
				logger: node.logger,
				channel_monitors,
			},
		);
		match res {
			Ok((_, m)) => Box::leak(Box::new(m)),
			Err(e) => return Err(format!("ChannelManager::read failed: {:?}", e)),
		}
	};
	if chain_monitor.load_existing_monitor(channel_id, monitor) != Ok(ChannelMonitorUpdateStatus::Completed) {
		return Err(String::from("the chain monitor refused the monitor"));
	}
	let events = manager.get_and_clear_pending_events();
	let events2 = manager.get_and_clear_pending_events();
	let closed_outdated = events.iter().chain(events2.iter()).any(|e| matches!(e, Event::ChannelClosed { reason: ClosureReason::OutdatedChannelManager, .. }));
	let monitor_update_id = chain_monitor.chain_monitor.get_monitor(channel_id).map(|m| m.get_latest_update_id()).unwrap_or(0);
	chain_monitor.added_monitors.lock().unwrap().clear();
	let mut released = 0;
	if let Some(peer) = peer {
		use lightning::ln::msgs::{BaseMessageHandler, ChannelMessageHandler, Init, MessageSendEvent};
		let (victim_id, peer_id) = (manager.get_our_node_id(), peer.node.get_our_node_id());
		peer.node.peer_disconnected(victim_id);
		peer.node.get_and_clear_pending_msg_events();
		manager.peer_connected(peer_id, &Init { features: peer.node.init_features(), networks: None, remote_network_address: None }, true).map_err(|_| String::from("peer_connected failed"))?;
		peer.node.peer_connected(victim_id, &Init { features: manager.init_features(), networks: None, remote_network_address: None }, false).map_err(|_| String::from("peer_connected failed"))?;
		let reestablish = |evs: Vec<MessageSendEvent>| evs.into_iter().filter_map(|e| if let MessageSendEvent::SendChannelReestablish { msg, .. } = e { Some(msg) } else { None }).next();
		let from_victim = reestablish(manager.get_and_clear_pending_msg_events());
		let from_peer = reestablish(peer.node.get_and_clear_pending_msg_events());
		if let (Some(v), Some(p)) = (from_victim, from_peer) {
			peer.node.handle_channel_reestablish(victim_id, &v);
			manager.handle_channel_reestablish(peer_id, &p);
			manager.get_and_clear_pending_events();
			for e in manager.get_and_clear_pending_msg_events() {
				if matches!(e, MessageSendEvent::UpdateHTLCs { .. } | MessageSendEvent::SendRevokeAndACK { .. }) {
					released += 1;
				}
			}
		} else {
			return Err(String::from("no channel_reestablish after reconnecting"));
		}
		chain_monitor.added_monitors.lock().unwrap().clear();
	}
	Ok(RestartOutcome { closed_outdated, channels: manager.list_channels().len(), broadcast: node.tx_broadcaster.txn_broadcast().len(), monitor_update_id, released })
}

/// restart_probe <victim 0|1> <mode 0|1|2>: a payment from node 0 to node 1 is sent and claimed, one message delivery at
/// a time; after every step the victim's ChannelManager and ChannelMonitor are serialized.
/// mode 0: for every pair of points k <= j the victim restarts from the manager of point k and the monitor of point j:
///   reading must succeed, the channel must be closed with OutdatedChannelManager (and the monitor's commitment
///   transaction broadcast) iff the monitor saw an update the manager did not, and must otherwise still be open with
///   nothing broadcast.
/// mode 1 <from>: from step <from> on every monitor write of the victim is answered InProgress (it then holds its
///   messages back, so the flow soon stops); at every later point the victim restarts from
///   its manager (which lists the updates in flight) and (a) the monitor that already has them all - nothing may be
///   applied twice, the channel stays - and (b) the monitor persisted before them - every update in flight must be
///   replayed, so the monitor ends at the manager's update id.
/// mode 2 (victim 0): the payer does not handle its events while the claim comes back, so its last monitor update is
///   held back (blocked) behind PaymentSent; it restarts from the manager that lists the blocked update and the monitor
///   that has meanwhile applied it.
/// Output: `<pairs that misbehaved> <pairs tried>`, or `error ...`.
fn restart_probe(a: &mut Vec<i128>) -> String {
	use lightning::chain::ChannelMonitorUpdateStatus;
	use lightning::events::Event;
	use lightning::ln::channelmanager::PaymentId;
	use lightning::ln::msgs::{ChannelMessageHandler, MessageSendEvent};
	use lightning::ln::outbound_payment::RecipientOnionFields;
	use lightning::util::ser::Writeable;
	use std::collections::VecDeque;
	let victim = a[0] as usize;
	let mode = a[1];
	let chanmon_cfgs = create_chanmon_cfgs(2);
	let node_cfgs = create_node_cfgs(2, &chanmon_cfgs);
	let legacy_cfg = test_legacy_channel_config();
	let node_chanmgrs = create_node_chanmgrs(2, &node_cfgs, &[Some(legacy_cfg.clone()), Some(legacy_cfg)]);
	let nodes = create_network(2, &node_cfgs, &node_chanmgrs);
	let ids = [nodes[0].node.get_our_node_id(), nodes[1].node.get_our_node_id()];
	let chan_id = create_announced_chan_between_nodes(&nodes, 0, 1).2;
	let (route, hash, preimage, secret) = lightning::get_route_and_payment_hash!(nodes[0], nodes[1], 1_000_000);
	enum Msg {
		Add(lightning::ln::msgs::UpdateAddHTLC),
		Fulfill(lightning::ln::msgs::UpdateFulfillHTLC),
		Cs(Vec<lightning::ln::msgs::CommitmentSigned>),
		Raa(lightning::ln::msgs::RevokeAndACK),
	}
	// (manager, monitor, monitor's update id, manager's view of the highest update id handed out)
	let mut snaps: Vec<(Vec<u8>, Vec<u8>, u64)> = Vec::new();
	let mut before: Vec<Vec<u8>> = Vec::new(); // mode 1: the monitor as last persisted (before the in-flight updates)
	let snap = |snaps: &mut Vec<(Vec<u8>, Vec<u8>, u64)>| {
		let mon = lightning::get_monitor!(nodes[victim], chan_id);
		snaps.push((nodes[victim].node.encode(), mon.encode(), mon.get_latest_update_id()));
	};
	let mut durable = lightning::get_monitor!(nodes[victim], chan_id).encode();
	snap(&mut snaps);
	before.push(durable.clone());
	let async_from = if a.len() > 2 { a[2] } else { 0 };
	let mut is_async = false;
	let mut async_since = 0usize;
	if mode == 1 && async_from == 0 {
		for _ in 0..4 {
			chanmon_cfgs[victim].persister.set_update_ret(ChannelMonitorUpdateStatus::InProgress);
		}
		is_async = true;
	}
	nodes[0].node.send_payment_with_route(route, hash, RecipientOnionFields::secret_only(secret, 1_000_000), PaymentId(hash.0)).unwrap();
	let (mut bad, mut total) = (0u32, 0u32);
	let mut judge = |what: String, r: std::thread::Result<Result<RestartOutcome, String>>, expect_closed: bool, expect_id: Option<u64>| {
		total += 1;
		if std::env::var("ORACLE_DEBUG").is_ok() {
			match &r {
				Ok(Ok(o)) => eprintln!("restart_probe: {}: closed {} channels {} broadcast {} monitor id {} (expected closed {} id {:?})", what, o.closed_outdated, o.channels, o.broadcast, o.monitor_update_id, expect_closed, expect_id),
				Ok(Err(e)) => eprintln!("restart_probe: {}: {}", what, e),
				Err(_) => eprintln!("restart_probe: {}: panicked", what),
			}
		}
		let ok = match r {
			Ok(Ok(o)) => {
				let shape = if expect_closed { o.closed_outdated && o.channels == 0 && o.broadcast >= 1 } else { !o.closed_outdated && o.channels == 1 && o.broadcast == 0 };
				shape && expect_id.map(|id| id == o.monitor_update_id).unwrap_or(true)
			},
			_ => false,
		};
		if !ok {
			bad += 1;
			if std::env::var("ORACLE_DEBUG").is_ok() {
				eprintln!("restart_probe: {} misbehaved", what);
			}
		}
	};
	let mut queue: VecDeque<(usize, Msg)> = VecDeque::new();
	let mut claimed = false;
	let mut steps = 0;
	loop {
		steps += 1;
		if steps > 40 {
			return String::from("error the payment flow did not end");
		}
		if mode == 1 && !is_async && steps == async_from {
			// from here on the victim's monitor writes stay in flight; what is durable is the monitor as it is now
			durable = lightning::get_monitor!(nodes[victim], chan_id).encode();
			async_since = snaps.len();
			is_async = true;
		}
		if is_async {
			let mut rets = chanmon_cfgs[victim].persister.update_rets.lock().unwrap();
			while rets.len() < 4 {
				rets.push_back(ChannelMonitorUpdateStatus::InProgress);
			}
		}
		for i in 0..2 {
			for ev in nodes[i].node.get_and_clear_pending_msg_events() {
				match ev {
					MessageSendEvent::UpdateHTLCs { updates, .. } => {
						for m in updates.update_add_htlcs { queue.push_back((1 - i, Msg::Add(m))); }
						for m in updates.update_fulfill_htlcs { queue.push_back((1 - i, Msg::Fulfill(m))); }
						queue.push_back((1 - i, Msg::Cs(updates.commitment_signed)));
					},
					MessageSendEvent::SendRevokeAndACK { msg, .. } => queue.push_back((1 - i, Msg::Raa(msg))),
					_ => {},
				}
			}
		}
		nodes[1].node.process_pending_htlc_forwards();
		let mut claim_now = false;
		for i in 0..2 {
			if mode == 2 && i == 0 {
				continue;
			}
			for ev in nodes[i].node.get_and_clear_pending_events() {
				if let Event::PaymentClaimable { .. } = ev {
					claim_now = true;
				}
			}
		}
		for n in nodes.iter() {
			n.chain_monitor.added_monitors.lock().unwrap().clear();
		}
		snap(&mut snaps);
		before.push(durable.clone());
		{
			// restart NOW (the signer's and the chain's state are those of this very point) from every earlier manager
			let j = snaps.len() - 1;
			if mode == 0 {
				for k in 0..=j {
					let stale = snaps[k].2 < snaps[j].2;
					let r = catch_unwind(AssertUnwindSafe(|| standalone_restart(&nodes[victim], &snaps[k].0, &snaps[j].1, None)));
					judge(format!("victim {} manager@{} monitor@{} (stale {})", victim, k, j, stale), r, stale, None);
				}
			} else if mode == 1 && is_async {
				let r = catch_unwind(AssertUnwindSafe(|| standalone_restart(&nodes[victim], &snaps[j].0, &snaps[j].1, None)));
				judge(format!("in flight: manager@{} with the monitor that has every update", j), r, false, Some(snaps[j].2));
				let r = catch_unwind(AssertUnwindSafe(|| standalone_restart(&nodes[victim], &snaps[j].0, &before[j], None)));
				judge(format!("in flight: manager@{} with the monitor persisted before them", j), r, false, Some(snaps[j].2));
				// ... and with the monitor of every point since then (some of the writes in flight reached the disk, in order)
				for i in async_since..j {
					if snaps[i].2 < snaps[j].2 {
						let r = catch_unwind(AssertUnwindSafe(|| standalone_restart(&nodes[victim], &snaps[j].0, &snaps[i].1, None)));
						judge(format!("in flight: manager@{} with the monitor of point {}", j, i), r, false, Some(snaps[j].2));
					}
				}
			}
		}
		if claim_now && !claimed {
			claimed = true;
			nodes[1].node.claim_funds(preimage);
			continue;
		}
		match queue.pop_front() {
			Some((to, Msg::Add(m))) => nodes[to].node.handle_update_add_htlc(ids[1 - to], &m),
			Some((to, Msg::Fulfill(m))) => nodes[to].node.handle_update_fulfill_htlc(ids[1 - to], m),
			Some((to, Msg::Cs(m))) => nodes[to].node.handle_commitment_signed_batch_test(ids[1 - to], &m),
			Some((to, Msg::Raa(m))) => nodes[to].node.handle_revoke_and_ack(ids[1 - to], &m),
			None => break,
		}
	}
	if mode == 1 && is_async {
		// the flow has stopped (the victim is holding its messages back behind the writes in flight): restart from the
		// monitor that has them all and reconnect - what was held back must leave now
		let j = snaps.len() - 1;
		let durable_id = {
			use lightning::util::ser::ReadableArgs;
			let mut r = &durable[..];
			<(lightning::chain::BlockLocator, lightning::chain::channelmonitor::ChannelMonitor<lightning::util::test_channel_signer::TestChannelSigner>)>::read(&mut r, (nodes[victim].keys_manager, nodes[victim].keys_manager)).map(|m| m.1.get_latest_update_id()).unwrap_or(0)
		};
		if snaps[j].2 > durable_id {
			let r = catch_unwind(AssertUnwindSafe(|| standalone_restart(&nodes[victim], &snaps[j].0, &snaps[j].1, Some(&nodes[1 - victim]))));
			let released = match &r { Ok(Ok(o)) => o.released, _ => 0 };
			judge(format!("in flight: manager@{} with the monitor that has every update, then reconnect", j), r, false, Some(snaps[j].2));
			// what the node itself releases when the same writes complete without a restart
			chanmon_cfgs[victim].persister.update_rets.lock().unwrap().clear();
			nodes[victim].node.get_and_clear_pending_msg_events();
			let (latest, _) = nodes[victim].chain_monitor.get_latest_mon_update_id(chan_id);
			nodes[victim].chain_monitor.chain_monitor.channel_monitor_updated(chan_id, latest).unwrap();
			nodes[victim].node.get_and_clear_pending_events();
			let live = nodes[victim].node.get_and_clear_pending_msg_events().iter().filter(|e| matches!(e, MessageSendEvent::UpdateHTLCs { .. } | MessageSendEvent::SendRevokeAndACK { .. })).count();
			if live > 0 && released == 0 {
				judge(String::from("nothing was released after the restart although the writes in flight had completed"), Ok(Err(String::new())), false, None);
			}
		}
	}
	if mode == 2 {
		// the manager that lists the held-back update, then the events are handled (the update is released and applied)
		let mgr_blocked = nodes[0].node.encode();
		let id_blocked = lightning::get_monitor!(nodes[0], chan_id).get_latest_update_id();
		nodes[0].node.get_and_clear_pending_events();
		nodes[0].chain_monitor.added_monitors.lock().unwrap().clear();
		let mon = lightning::get_monitor!(nodes[0], chan_id);
		let (mon_after, id_after) = (mon.encode(), mon.get_latest_update_id());
		if id_after <= id_blocked {
			return format!("error no monitor update was held back behind the payer's events ({} then {})", id_blocked, id_after);
		}
		let r = catch_unwind(AssertUnwindSafe(|| standalone_restart(&nodes[0], &mgr_blocked, &mon_after, None)));
		judge(String::from("held-back update already in the monitor"), r, false, Some(id_after));
		let r = catch_unwind(AssertUnwindSafe(|| standalone_restart(&nodes[0], &mgr_blocked, &snaps[snaps.len() - 1].1, None)));
		judge(String::from("held-back update not yet in the monitor"), r, false, None);
	}
	for n in nodes.iter() {
		n.node.get_and_clear_pending_msg_events();
		n.node.get_and_clear_pending_events();
		n.chain_monitor.added_monitors.lock().unwrap().clear();
		n.tx_broadcaster.txn_broadcast();
	}
	core::mem::forget(nodes);
	format!("{} {}", bad, total)
}

/// restart_forward_probe: the middle node has two channels with the same upstream peer; an HTLC to be forwarded arrives
/// over the first and a payment to the node itself over the second, both with HTLC id 0; the ChannelManager is written
/// while both are queued, the first is then forwarded (the downstream monitor is persisted) and the node restarts from
/// the stale manager: the downstream channel is closed from its monitor, the forwarded HTLC is not forwarded again, and
/// the unrelated payment still becomes claimable and can be claimed. The test utilities assert every step; output `1`.
fn restart_forward_probe(_a: &mut Vec<i128>) -> String {
	use lightning::events::{ClosureReason, Event, HTLCHandlingFailureType};
	use lightning::ln::channelmanager::PaymentId;
	use lightning::ln::msgs::{BaseMessageHandler, ChannelMessageHandler, MessageSendEvent};
	use lightning::ln::outbound_payment::RecipientOnionFields;
	use lightning::util::config::HTLCInterceptionFlags;
	use lightning::util::ser::Writeable;

	// B has two channels with A and one with C. Two HTLCs arrive from A, each the first HTLC
	// (`htlc_id` 0) on its channel: one to be forwarded to C, one a payment to B itself. The
	// `ChannelManager` is written while both sit in the pending-forwards queue; B then forwards
	// the first to C (the B<->C `ChannelMonitor` is persisted) and crashes.
	//
	// On restart the B<->C channel is force-closed from its monitor and the HTLC it already holds
	// must not be forwarded again, but the unrelated payment to B must still be processed.
	let chanmon_cfgs = create_chanmon_cfgs(3);
	let node_cfgs = create_node_cfgs(3, &chanmon_cfgs);
	let persister;
	let new_chain_monitor;
	let node_chanmgrs = create_node_chanmgrs(3, &node_cfgs, &[None, None, None]);
	let nodes_1_deserialized;
	let mut nodes = create_network(3, &node_cfgs, &node_chanmgrs);

	let node_a_id = nodes[0].node.get_our_node_id();
	let node_b_id = nodes[1].node.get_our_node_id();
	let node_c_id = nodes[2].node.get_our_node_id();

	let chan_ab_1 = create_announced_chan_between_nodes(&nodes, 0, 1);
	let chan_ab_2 = create_announced_chan_between_nodes(&nodes, 0, 1);
	let chan_bc = create_announced_chan_between_nodes(&nodes, 1, 2);
	let (chan_id_ab_1, chan_id_ab_2, chan_id_bc) = (chan_ab_1.2, chan_ab_2.2, chan_bc.2);

	// HTLC 1: A -> B -> C over the first A<->B channel.
	let (mut route_1, hash_1, _preimage_1, secret_1) =
		lightning::get_route_and_payment_hash!(nodes[0], nodes[2], 1_000_000);
	route_1.paths[0].hops[0].short_channel_id = chan_ab_1.0.contents.short_channel_id;
	nodes[0].node.send_payment_with_route(route_1, hash_1,
		RecipientOnionFields::secret_only(secret_1, 1_000_000), PaymentId(hash_1.0)).unwrap();
	check_added_monitors(&nodes[0], 1);
	let send_1 = SendEvent::from_node(&nodes[0]);
	assert_eq!(send_1.msgs[0].channel_id, chan_id_ab_1);
	assert_eq!(send_1.msgs[0].htlc_id, 0);
	nodes[1].node.handle_update_add_htlc(node_a_id, &send_1.msgs[0]);
	do_commitment_signed_dance(&nodes[1], &nodes[0], &send_1.commitment_msg, false, false);

	// HTLC 2: A -> B over the second A<->B channel.
	let (mut route_2, hash_2, preimage_2, secret_2) =
		lightning::get_route_and_payment_hash!(nodes[0], nodes[1], 2_000_000);
	route_2.paths[0].hops[0].short_channel_id = chan_ab_2.0.contents.short_channel_id;
	nodes[0].node.send_payment_with_route(route_2, hash_2,
		RecipientOnionFields::secret_only(secret_2, 2_000_000), PaymentId(hash_2.0)).unwrap();
	check_added_monitors(&nodes[0], 1);
	let send_2 = SendEvent::from_node(&nodes[0]);
	assert_eq!(send_2.msgs[0].channel_id, chan_id_ab_2);
	assert_eq!(send_2.msgs[0].htlc_id, 0);
	nodes[1].node.handle_update_add_htlc(node_a_id, &send_2.msgs[0]);
	do_commitment_signed_dance(&nodes[1], &nodes[0], &send_2.commitment_msg, false, false);

	// Both HTLCs get decoded and queued, and the `ChannelManager` is written.
	nodes[1].node.test_process_pending_update_add_htlcs();
	let node_b_encoded = nodes[1].node.encode();

	// B forwards HTLC 1 to C, persisting the B<->C monitor, and makes HTLC 2 claimable.
	nodes[1].node.process_pending_htlc_forwards();
	check_added_monitors(&nodes[1], 1);
	let events = nodes[1].node.get_and_clear_pending_events();
	assert!(events.iter().any(|ev| matches!(ev,
		Event::PaymentClaimable { payment_hash, .. } if *payment_hash == hash_2)));
	let _ = nodes[1].node.get_and_clear_pending_msg_events();

	// Crash, and restart from the stale manager and the current monitors.
	let mon_ab_1 = lightning::get_monitor!(nodes[1], chan_id_ab_1).encode();
	let mon_ab_2 = lightning::get_monitor!(nodes[1], chan_id_ab_2).encode();
	let mon_bc = lightning::get_monitor!(nodes[1], chan_id_bc).encode();
	lightning::reload_node!(nodes[1], node_b_encoded, &[&mon_ab_1, &mon_ab_2, &mon_bc], persister,
		new_chain_monitor, nodes_1_deserialized);
	nodes[0].node.peer_disconnected(node_b_id);
	nodes[2].node.peer_disconnected(node_b_id);

	check_closed_event(&nodes[1], 1, ClosureReason::OutdatedChannelManager, &[node_c_id], 100000);
	check_added_monitors(&nodes[1], 1);

	// HTLC 2 is still committed in the (live) second A<->B channel and nothing else tracks it, so
	// it has to come out of the restored pending-forwards queue.
	nodes[1].node.process_pending_htlc_forwards();
	let events = nodes[1].node.get_and_clear_pending_events();
	assert!(
		events.iter().any(|ev| matches!(ev,
			Event::PaymentClaimable { payment_hash, .. } if *payment_hash == hash_2)),
		"The payment to B over the second A<->B channel was dropped on restart, events: {:?}", events
	);
	// HTLC 1 must not have been forwarded a second time.
	assert!(nodes[1].node.get_and_clear_pending_msg_events().iter().all(|ev|
		!matches!(ev, MessageSendEvent::UpdateHTLCs { .. })));

	// And it can be claimed once A reconnects.
	let mut reconnect_args = ReconnectArgs::new(&nodes[0], &nodes[1]);
	reconnect_args.send_channel_ready = (false, false);
	reconnect_nodes(reconnect_args);
	nodes[1].node.claim_funds(preimage_2);
	check_added_monitors(&nodes[1], 1);
	lightning::expect_payment_claimed!(nodes[1], hash_2, 2_000_000);
	let mut updates = get_htlc_update_msgs(&nodes[1], &node_a_id);
	nodes[0].node.handle_update_fulfill_htlc(node_b_id, updates.update_fulfill_htlcs.remove(0));
	do_commitment_signed_dance(&nodes[0], &nodes[1], &updates.commitment_signed, false, false);
	lightning::expect_payment_sent!(nodes[0], preimage_2);

	nodes[1].tx_broadcaster.txn_broadcasted.lock().unwrap().clear();

	for n in nodes.iter() {
		n.node.get_and_clear_pending_msg_events();
		n.node.get_and_clear_pending_events();
		n.chain_monitor.added_monitors.lock().unwrap().clear();
		n.tx_broadcaster.txn_broadcast();
	}
	core::mem::forget(nodes);
	String::from("1")
}

/// restart_intercept_probe: a node holds two intercepted HTLCs when its ChannelManager is written - the event for the
/// first was already handed to the user, the one for the second is still queued - and restarts: both must be announced
/// (again), and both can then be failed back. Output `1`.
fn restart_intercept_probe(_a: &mut Vec<i128>) -> String {
	use lightning::events::{ClosureReason, Event, HTLCHandlingFailureType};
	use lightning::ln::channelmanager::PaymentId;
	use lightning::ln::msgs::{BaseMessageHandler, ChannelMessageHandler, MessageSendEvent};
	use lightning::ln::outbound_payment::RecipientOnionFields;
	use lightning::util::config::HTLCInterceptionFlags;
	use lightning::util::ser::Writeable;

	// `Event::HTLCIntercepted` is documented as persisted across restarts: as long as an intercepted
	// HTLC has been neither forwarded nor failed, a restarted node has to tell the user about it
	// again. Here B holds two intercepted HTLCs when its `ChannelManager` is written: the event for
	// the first was already handed to the user (who crashed before acting on it), the event for the
	// second is still queued.
	let chanmon_cfgs = create_chanmon_cfgs(3);
	let node_cfgs = create_node_cfgs(3, &chanmon_cfgs);
	let persister;
	let new_chain_monitor;
	let mut intercept_forwards_config = test_legacy_channel_config();
	intercept_forwards_config.htlc_interception_flags =
		HTLCInterceptionFlags::ToInterceptSCIDs as u8;
	let node_chanmgrs =
		create_node_chanmgrs(3, &node_cfgs, &[None, Some(intercept_forwards_config), None]);
	let nodes_1_deserialized;
	let mut nodes = create_network(3, &node_cfgs, &node_chanmgrs);

	let node_a_id = nodes[0].node.get_our_node_id();
	let node_b_id = nodes[1].node.get_our_node_id();

	let chan_id_ab = create_announced_chan_between_nodes(&nodes, 0, 1).2;
	let chan_id_bc = create_announced_chan_between_nodes(&nodes, 1, 2).2;
	let intercept_scid = nodes[1].node.get_intercept_scid();

	let mut intercept_ids = Vec::new();
	for idx in 0..2 {
		let (mut route, payment_hash, _, payment_secret) =
			lightning::get_route_and_payment_hash!(nodes[0], nodes[2], 1_000_000);
		route.paths[0].hops[1].short_channel_id = intercept_scid;
		nodes[0].node.send_payment_with_route(route, payment_hash,
			RecipientOnionFields::secret_only(payment_secret, 1_000_000), PaymentId(payment_hash.0)).unwrap();
		check_added_monitors(&nodes[0], 1);
		let payment_event = SendEvent::from_node(&nodes[0]);
		nodes[1].node.handle_update_add_htlc(node_a_id, &payment_event.msgs[0]);
		do_commitment_signed_dance(&nodes[1], &nodes[0], &payment_event.commitment_msg, false, false);
		nodes[1].node.process_pending_htlc_forwards();
		if idx == 0 {
			// The user's handler sees the first event (and then does not get to act on it).
			let events = nodes[1].node.get_and_clear_pending_events();
			assert_eq!(events.len(), 1);
			match events[0] {
				Event::HTLCIntercepted { intercept_id, .. } => intercept_ids.push(intercept_id),
				_ => panic!("Unexpected event {:?}", events[0]),
			}
		}
	}

	// The `ChannelManager` is written with the second `HTLCIntercepted` still queued, then we crash.
	let node_b_encoded = nodes[1].node.encode();
	let mon_ab = lightning::get_monitor!(nodes[1], chan_id_ab).encode();
	let mon_bc = lightning::get_monitor!(nodes[1], chan_id_bc).encode();
	lightning::reload_node!(nodes[1], node_b_encoded, &[&mon_ab, &mon_bc], persister, new_chain_monitor, nodes_1_deserialized);
	nodes[0].node.peer_disconnected(node_b_id);
	nodes[2].node.peer_disconnected(node_b_id);

	let events = nodes[1].node.get_and_clear_pending_events();
	let redelivered: Vec<_> = events.iter().filter_map(|ev| match ev {
		Event::HTLCIntercepted { intercept_id, .. } => Some(*intercept_id),
		_ => None,
	}).collect();
	assert_eq!(redelivered.len(), 2, "Expected both held HTLCs to be announced, got {:?}", events);
	assert!(redelivered.contains(&intercept_ids[0]),
		"The first intercepted HTLC is still held but was not re-delivered: {:?}", events);

	// Both can now be resolved by the user.
	for id in redelivered {
		nodes[1].node.fail_intercepted_htlc(id).unwrap();
	}
	let fail_type = HTLCHandlingFailureType::InvalidForward { requested_forward_scid: intercept_scid };
	expect_and_process_pending_htlcs_and_htlc_handling_failed(&nodes[1], &[fail_type.clone(), fail_type]);
	nodes[1].node.get_and_clear_pending_msg_events();
	nodes[0].node.get_and_clear_pending_msg_events();

	for n in nodes.iter() {
		n.node.get_and_clear_pending_msg_events();
		n.node.get_and_clear_pending_events();
		n.chain_monitor.added_monitors.lock().unwrap().clear();
		n.tx_broadcaster.txn_broadcast();
	}
	core::mem::forget(nodes);
	String::from("1")
}

/// restart_battery: restart_probe for both victims (mode 0) and the in-flight / held-back variants for the payer.
/// Output: `<pairs that misbehaved or scenarios that broke> <total>`.
fn restart_battery(_a: &mut Vec<i128>) -> String {
	let (mut bad, mut total) = (0u32, 0u32);
	let mut runs = vec![vec![0i128, 0], vec![1, 0], vec![0, 2]];
	for from in 0..12 {
		runs.push(vec![0, 1, from]);
		runs.push(vec![1, 1, from]);
	}
	for probe in [restart_forward_probe as fn(&mut Vec<i128>) -> String, restart_intercept_probe] {
		total += 1;
		match catch_unwind(AssertUnwindSafe(|| probe(&mut vec![]))) {
			Ok(v) if v == "1" => {},
			_ => bad += 1,
		}
	}
	for mut run in runs {
		match catch_unwind(AssertUnwindSafe(|| restart_probe(&mut run))) {
			Ok(v) => {
				let t: Vec<&str> = v.split_whitespace().collect();
				match (t.get(0).and_then(|x| x.parse::<u32>().ok()), t.get(1).and_then(|x| x.parse::<u32>().ok())) {
					(Some(b), Some(n)) if n > 0 => { bad += b; total += n; },
					_ => { bad += 1; total += 1; },
				}
			},
			Err(_) => { bad += 1; total += 1; },
		}
	}
	format!("{} {}", bad, total)
}

/// monitor_update_deferred_probe: a ChainMonitor in deferred mode whose persister leaves the write of the INITIAL monitor
/// in flight: flushing the queued watch_channel must not count as completion - the funding transaction is broadcast
/// (and ChannelPending raised) only once channel_monitor_updated is called for the new monitor. Output `1` / `0 <what>`.
fn monitor_update_deferred_probe(_a: &mut Vec<i128>) -> String {
	use lightning::chain::ChannelMonitorUpdateStatus;
	use lightning::ln::msgs::{ChannelMessageHandler, MessageSendEvent};
	let chanmon_cfgs = create_chanmon_cfgs(2);
	let node_cfgs = create_node_cfgs_deferred(2, &chanmon_cfgs);
	let node_chanmgrs = create_node_chanmgrs(2, &node_cfgs, &[None, None]);
	let nodes = create_network(2, &node_cfgs, &node_chanmgrs);
	let (id_a, id_b) = (nodes[0].node.get_our_node_id(), nodes[1].node.get_our_node_id());
	nodes[0].node.create_channel(id_b, 100000, 10001, 43, None, None).unwrap();
	let open = lightning::get_event_msg!(nodes[0], MessageSendEvent::SendOpenChannel, id_b);
	handle_and_accept_open_channel(&nodes[1], id_a, &open);
	nodes[0].node.handle_accept_channel(id_b, &lightning::get_event_msg!(nodes[1], MessageSendEvent::SendAcceptChannel, id_a));
	let (temporary_channel_id, funding_tx, funding_output) = create_funding_transaction(&nodes[0], &id_b, 100000, 43);
	nodes[0].node.funding_transaction_generated(temporary_channel_id, id_b, funding_tx.clone()).unwrap();
	let created = lightning::get_event_msg!(nodes[0], MessageSendEvent::SendFundingCreated, id_b);
	nodes[1].node.handle_funding_created(id_a, &created);
	let signed = lightning::get_event_msg!(nodes[1], MessageSendEvent::SendFundingSigned, id_a);
	chanmon_cfgs[0].persister.set_update_ret(ChannelMonitorUpdateStatus::InProgress);
	nodes[0].node.handle_funding_signed(id_b, &signed);
	let mut verdict = String::from("1");
	// fetching messages flushes the queued watch_channel to the persister
	nodes[0].node.get_and_clear_pending_msg_events();
	if nodes[0].chain_monitor.chain_monitor.pending_operation_count() != 0 {
		return String::from("error the queued watch_channel was not flushed");
	}
	if !nodes[0].tx_broadcaster.txn_broadcasted.lock().unwrap().is_empty() {
		verdict = String::from("0 the funding transaction was broadcast while the write of the initial monitor is in flight");
	} else if !nodes[0].node.get_and_clear_pending_events().is_empty() {
		verdict = String::from("0 an event was raised while the write of the initial monitor is in flight");
	}
	let pending = nodes[0].chain_monitor.chain_monitor.list_pending_monitor_updates();
	let ids: Vec<u64> = pending.values().flat_map(|v| v.iter().cloned()).collect();
	if verdict == "1" && ids.len() != 1 {
		verdict = format!("0 {} monitor updates are listed as pending instead of the initial one", ids.len());
	}
	if verdict == "1" {
		let channel_id = *pending.keys().next().unwrap();
		nodes[0].chain_monitor.chain_monitor.channel_monitor_updated(channel_id, ids[0]).unwrap();
		nodes[0].node.get_and_clear_pending_events();
		let broadcast = nodes[0].tx_broadcaster.txn_broadcasted.lock().unwrap().split_off(0);
		if broadcast.len() != 1 || broadcast[0].compute_txid() != funding_output.txid {
			verdict = String::from("0 completion did not release the funding transaction");
		}
	}
	for n in nodes.iter() {
		n.node.get_and_clear_pending_msg_events();
		n.node.get_and_clear_pending_events();
		n.chain_monitor.added_monitors.lock().unwrap().clear();
		n.tx_broadcaster.txn_broadcast();
	}
	core::mem::forget(nodes);
	verdict
}

/// monitor_update_blocked_probe: the middle node of a three-node line has two monitor updates of its channel with the
/// last node held back (a revoke_and_ack update behind an unhandled PaymentSent, then a commitment_signed update behind
/// it) when it learns a preimage for an HTLC of that channel: the preimage update must reach the chain::Watch at once
/// with the next update id, and the two held-back updates must follow it in order. (The monitor itself panics on an
/// out-of-order id.) Output `1` / `0 <what>`.
fn monitor_update_blocked_probe(_a: &mut Vec<i128>) -> String {
	use lightning::events::Event;
	use lightning::ln::channelmanager::PaymentId;
	use lightning::ln::msgs::ChannelMessageHandler;
	use lightning::ln::outbound_payment::RecipientOnionFields;
	let chanmon_cfgs = create_chanmon_cfgs(3);
	let node_cfgs = create_node_cfgs(3, &chanmon_cfgs);
	let node_chanmgrs = create_node_chanmgrs(3, &node_cfgs, &[None, None, None]);
	let nodes = create_network(3, &node_cfgs, &node_chanmgrs);
	let (id_a, id_b, id_c) = (nodes[0].node.get_our_node_id(), nodes[1].node.get_our_node_id(), nodes[2].node.get_our_node_id());
	create_announced_chan_between_nodes(&nodes, 0, 1);
	let chan_id_2 = create_announced_chan_between_nodes(&nodes, 1, 2).2;
	send_payment(&nodes[0], &[&nodes[1], &nodes[2]], 5_000_000);
	let (preimage_1, hash_1, ..) = route_payment(&nodes[1], &[&nodes[2]], 1_000_000);
	let (preimage_2, hash_2, ..) = route_payment(&nodes[2], &[&nodes[1], &nodes[0]], 1_000_000);
	nodes[2].node.claim_funds(preimage_1);
	check_added_monitors(&nodes[2], 1);
	lightning::expect_payment_claimed!(nodes[2], hash_1, 1_000_000);
	let mut fulfill = get_htlc_update_msgs(&nodes[2], &id_b);
	nodes[1].node.handle_update_fulfill_htlc(id_c, fulfill.update_fulfill_htlcs.remove(0));
	let commitment = fulfill.commitment_signed;
	do_commitment_signed_dance(&nodes[1], &nodes[2], &commitment, false, false);
	check_added_monitors(&nodes[1], 0);
	let before = lightning::get_monitor!(nodes[1], chan_id_2).get_latest_update_id();
	let (route, hash_3, _, secret_3) = lightning::get_route_and_payment_hash!(nodes[2], nodes[1], 100_000);
	nodes[2].node.send_payment_with_route(route, hash_3, RecipientOnionFields::secret_only(secret_3, 100_000), PaymentId(hash_3.0)).unwrap();
	check_added_monitors(&nodes[2], 1);
	let mut events = nodes[2].node.get_and_clear_pending_msg_events();
	let send = SendEvent::from_event(events.remove(0));
	nodes[1].node.handle_update_add_htlc(id_c, &send.msgs[0]);
	nodes[1].node.handle_commitment_signed_batch_test(id_c, &send.commitment_msg);
	nodes[1].chain_monitor.added_monitors.lock().unwrap().clear();
	if lightning::get_monitor!(nodes[1], chan_id_2).get_latest_update_id() != before {
		return String::from("error the second update was not held back");
	}
	nodes[0].node.claim_funds(preimage_2);
	check_added_monitors(&nodes[0], 1);
	lightning::expect_payment_claimed!(nodes[0], hash_2, 1_000_000);
	let mut fulfill = get_htlc_update_msgs(&nodes[0], &id_b);
	nodes[1].node.handle_update_fulfill_htlc(id_a, fulfill.update_fulfill_htlcs.remove(0));
	nodes[1].chain_monitor.added_monitors.lock().unwrap().clear();
	let mut verdict = String::from("1");
	let _ = hash_2;
	if lightning::get_monitor!(nodes[1], chan_id_2).get_latest_update_id() != before + 1 {
		verdict = String::from("0 the preimage update did not take the next update id");
	}
	let events = nodes[1].node.get_and_clear_pending_events();
	if verdict == "1" && !events.iter().any(|ev| matches!(ev, Event::PaymentSent { .. })) {
		verdict = String::from("0 no PaymentSent");
	}
	if verdict == "1" && lightning::get_monitor!(nodes[1], chan_id_2).get_latest_update_id() < before + 3 {
		verdict = String::from("0 the held-back updates did not follow once released");
	}
	for n in nodes.iter() {
		n.node.get_and_clear_pending_msg_events();
		n.node.get_and_clear_pending_events();
		n.chain_monitor.added_monitors.lock().unwrap().clear();
	}
	core::mem::forget(nodes);
	verdict
}

/// channel_reload_probe <scenario>: a node's ChannelManager is written while an update of its peer is only half way
/// through, read back, reconnected, and the channel must carry on exactly as after a mere disconnection.
/// 1: an update_add_htlc received without its commitment_signed (dropped on write; the peer re-sends it, the payment completes)
/// 2: a fee update the peer has committed (update_fee + commitment_signed received, revoke_and_ack sent) while our own
///    HTLC is in flight - it must survive the reload, the channel must not be closed, both sides end at the new feerate
/// 3: as 2, without the reload (plain disconnection), as the reference
/// The library's test utilities assert every step; a panic is a failure. Output `1`.
fn channel_reload_probe(a: &mut Vec<i128>) -> String {
	use lightning::events::Event;
	use lightning::ln::channelmanager::PaymentId;
	use lightning::ln::msgs::{BaseMessageHandler, ChannelMessageHandler, MessageSendEvent};
	use lightning::ln::outbound_payment::RecipientOnionFields;
	use lightning::util::ser::Writeable;
	if a[0] == 1 {

	// C12 demo: if we persist a `ChannelManager` after receiving an `update_add_htlc` but before the
	// corresponding `commitment_signed`, the (uncommitted) HTLC is dropped on write, as if the peer
	// had just disconnected. After reloading, the peer will re-send the very same `update_add_htlc`
	// on reconnection, which we must accept exactly like the original (disconnected) node would.
	let chanmon_cfgs = create_chanmon_cfgs(2);
	let node_cfgs = create_node_cfgs(2, &chanmon_cfgs);
	let persister;
	let new_chain_monitor;
	let node_chanmgrs = create_node_chanmgrs(2, &node_cfgs, &[None, None]);
	let nodes_1_deserialized;
	let mut nodes = create_network(2, &node_cfgs, &node_chanmgrs);

	let node_a_id = nodes[0].node.get_our_node_id();
	let node_b_id = nodes[1].node.get_our_node_id();

	let chan_id = create_announced_chan_between_nodes(&nodes, 0, 1).2;

	// Complete one payment first so that the channel is past its initial state (and HTLC ids are
	// not all-zero).
	send_payment(&nodes[0], &[&nodes[1]], 500_000);

	let (route, payment_hash, payment_preimage, payment_secret) =
		lightning::get_route_and_payment_hash!(nodes[0], nodes[1], 1_000_000);
	let onion = RecipientOnionFields::secret_only(payment_secret, 1_000_000);
	nodes[0].node.send_payment_with_route(route, payment_hash, onion, PaymentId(payment_hash.0)).unwrap();
	check_added_monitors(&nodes[0], 1);
	let mut events = nodes[0].node.get_and_clear_pending_msg_events();
	assert_eq!(events.len(), 1);
	let payment_event = SendEvent::from_event(events.remove(0));

	// Deliver only the `update_add_htlc`, not the `commitment_signed`.
	nodes[1].node.handle_update_add_htlc(node_a_id, &payment_event.msgs[0]);
	assert!(nodes[1].node.get_and_clear_pending_msg_events().is_empty());

	// Persist nodes[1] in this intermediate state and reload it.
	let node_b_ser = nodes[1].node.encode();
	let mon_ser = lightning::get_monitor!(nodes[1], chan_id).encode();
	lightning::reload_node!(nodes[1], &node_b_ser, &[&mon_ser], persister, new_chain_monitor, nodes_1_deserialized);

	// On startup the (already handled) `PaymentClaimed` for the first payment is replayed from the
	// `ChannelMonitor`; handle it so that it doesn't hold up further monitor updates.
	let replayed_events = nodes[1].node.get_and_clear_pending_events();
	assert_eq!(replayed_events.len(), 1);
	assert!(matches!(replayed_events[0], Event::PaymentClaimed { amount_msat: 500_000, .. }));

	// The reloaded node should report exactly the same channel as before, with no pending HTLCs.
	{
		let chans = nodes[1].node.list_channels();
		assert_eq!(chans.len(), 1);
		assert!(chans[0].pending_inbound_htlcs.is_empty());
	}

	// On reconnection nodes[0] re-sends the `update_add_htlc` + `commitment_signed`, and the payment
	// completes normally.
	nodes[0].node.peer_disconnected(node_b_id);
	let mut reconnect_args = ReconnectArgs::new(&nodes[0], &nodes[1]);
	reconnect_args.pending_htlc_adds.1 = 1;
	reconnect_nodes(reconnect_args);

	expect_and_process_pending_htlcs(&nodes[1], false);
	lightning::expect_payment_claimable!(nodes[1], payment_hash, payment_secret, 1_000_000);
	claim_payment(&nodes[0], &[&nodes[1]], payment_preimage);

		for n in nodes.iter() {
			n.node.get_and_clear_pending_msg_events();
			n.node.get_and_clear_pending_events();
			n.chain_monitor.added_monitors.lock().unwrap().clear();
		}
		core::mem::forget(nodes);
	} else {
		let reload = a[0] == 2;
		let reest = |n: &Node| -> Vec<lightning::ln::msgs::ChannelReestablish> {
			n.node.get_and_clear_pending_msg_events().into_iter().filter_map(|e| if let MessageSendEvent::SendChannelReestablish { msg, .. } = e { Some(msg) } else { None }).collect()
		};
		// what a node sends in answer to channel_reestablish: (_, revoke_and_ack, update batch, the batch came first)
		let resp = |n: &Node| -> ((), Option<lightning::ln::msgs::RevokeAndACK>, Option<lightning::ln::msgs::CommitmentUpdate>, bool) {
			let (mut raa, mut cu, mut cu_first) = (None, None, true);
			for e in n.node.get_and_clear_pending_msg_events() {
				match e {
					MessageSendEvent::SendRevokeAndACK { msg, .. } => { if cu.is_none() { cu_first = false; } raa = Some(msg); },
					MessageSendEvent::UpdateHTLCs { updates, .. } => cu = Some(updates),
					_ => {},
				}
			}
			((), raa, cu, cu_first)
		};

	// C12 demo: the non-funder (nodes[1]) has received `update_fee` + `commitment_signed` from the
	// funder and replied with a `revoke_and_ack`, but cannot yet send its own `commitment_signed`
	// as it is still waiting on the funder's `revoke_and_ack` for an HTLC it sent at the same time
	// (the two updates crossed on the wire). The fee update is thus irrevocably committed in
	// nodes[1]'s own commitment transaction but not yet "announced" back. If nodes[1] is written
	// and read back in exactly this state it must continue exactly like a node which has merely
	// been disconnected.
	let chanmon_cfgs = create_chanmon_cfgs(2);
	let node_cfgs = create_node_cfgs(2, &chanmon_cfgs);
	let persister;
	let new_chain_monitor;
	let node_chanmgrs = create_node_chanmgrs(2, &node_cfgs, &[None, None]);
	let nodes_1_deserialized;
	let mut nodes = create_network(2, &node_cfgs, &node_chanmgrs);
	let node_a_id = nodes[0].node.get_our_node_id();
	let node_b_id = nodes[1].node.get_our_node_id();

	// nodes[0] is the funder (and thus the one sending `update_fee`s).
	let chan_id = create_announced_chan_between_nodes_with_value(&nodes, 0, 1, 1_000_000, 400_000_000).2;

	// nodes[1] sends an HTLC to nodes[0] (update_add_htlc + commitment_signed)...
	let (route, payment_hash, payment_preimage, payment_secret) =
		lightning::get_route_and_payment_hash!(nodes[1], nodes[0], 1_000_000);
	let onion = RecipientOnionFields::secret_only(payment_secret, 1_000_000);
	nodes[1].node.send_payment_with_route(route, payment_hash, onion, PaymentId(payment_hash.0)).unwrap();
	check_added_monitors(&nodes[1], 1);
	let _lost_bs_htlc_update = get_htlc_update_msgs(&nodes[1], &node_a_id);

	// ...while, at the same time, nodes[0] sends a fee update.
	{
		let mut feerate_lock = chanmon_cfgs[0].fee_estimator.sat_per_kw.lock().unwrap();
		*feerate_lock *= 2;
	}
	nodes[0].node.timer_tick_occurred();
	check_added_monitors(&nodes[0], 1);
	let as_fee_update = get_htlc_update_msgs(&nodes[0], &node_b_id);
	assert!(as_fee_update.update_fee.is_some());

	// nodes[1] gets the fee update and responds with an RAA only - it is still waiting on an RAA
	// from nodes[0] and thus can't send a new commitment_signed.
	nodes[1].node.handle_update_fee(node_a_id, as_fee_update.update_fee.as_ref().unwrap());
	nodes[1].node.handle_commitment_signed_batch_test(node_a_id, &as_fee_update.commitment_signed);
	check_added_monitors(&nodes[1], 1);
	let _lost_bs_raa = lightning::get_event_msg!(nodes[1], MessageSendEvent::SendRevokeAndACK, node_a_id);

	// All of nodes[1]'s messages are lost as the peers disconnect. nodes[1] restarts.
	if reload {
		let chan_1_monitor_serialized = lightning::get_monitor!(nodes[1], chan_id).encode();
		lightning::reload_node!(nodes[1], nodes[1].node.encode(), &[&chan_1_monitor_serialized], persister, new_chain_monitor, nodes_1_deserialized);
	} else {
		nodes[1].node.peer_disconnected(node_a_id);
	}
	nodes[0].node.peer_disconnected(node_b_id);

	connect_nodes(&nodes[0], &nodes[1]);
	let reestablish_a = reest(&nodes[0]);
	let reestablish_b = reest(&nodes[1]);
	assert_eq!(reestablish_a.len(), 1);
	assert_eq!(reestablish_b.len(), 1);
	nodes[0].node.handle_channel_reestablish(node_b_id, &reestablish_b[0]);
	let as_resp = resp(&nodes[0]);
	nodes[1].node.handle_channel_reestablish(node_a_id, &reestablish_a[0]);
	let bs_resp = resp(&nodes[1]);

	// nodes[1] received everything nodes[0] sent, nodes[0] nothing of what nodes[1] sent.
	assert!(as_resp.1.is_none() && as_resp.2.is_none());
	let bs_raa = bs_resp.1.expect("nodes[1] must re-send its RAA");
	let bs_htlc_update = bs_resp.2.expect("nodes[1] must re-send its HTLC");
	assert!(bs_resp.3);
	assert_eq!(bs_htlc_update.update_add_htlcs.len(), 1);

	// nodes[0] processes nodes[1]'s HTLC + commitment_signed, then the RAA for the fee update.
	nodes[0].node.handle_update_add_htlc(node_b_id, &bs_htlc_update.update_add_htlcs[0]);
	nodes[0].node.handle_commitment_signed_batch_test(node_b_id, &bs_htlc_update.commitment_signed);
	check_added_monitors(&nodes[0], 1);
	let as_raa = lightning::get_event_msg!(nodes[0], MessageSendEvent::SendRevokeAndACK, node_b_id);
	nodes[0].node.handle_revoke_and_ack(node_b_id, &bs_raa);
	check_added_monitors(&nodes[0], 1);
	let as_cs = get_htlc_update_msgs(&nodes[0], &node_b_id);
	assert!(as_cs.update_add_htlcs.is_empty() && as_cs.update_fee.is_none());

	// nodes[1] gets the RAA, which finally lets it commit the fee update in nodes[0]'s commitment
	// transaction as well.
	nodes[1].node.handle_revoke_and_ack(node_a_id, &as_raa);
	check_added_monitors(&nodes[1], 1);
	let bs_msg_events = nodes[1].node.get_and_clear_pending_msg_events();

	// nodes[0]'s new commitment_signed uses the new feerate. nodes[1] must accept it rather than
	// force-closing the channel.
	nodes[1].node.handle_commitment_signed_batch_test(node_a_id, &as_cs.commitment_signed);
	assert_eq!(
		nodes[1].node.list_usable_channels().len(), 1,
		"nodes[1] rejected nodes[0]'s commitment_signed and closed the channel"
	);
	check_added_monitors(&nodes[1], 1);
	let bs_second_raa = lightning::get_event_msg!(nodes[1], MessageSendEvent::SendRevokeAndACK, node_a_id);

	assert_eq!(bs_msg_events.len(), 1, "nodes[1] must send a commitment_signed for the fee update");
	let bs_cs = match &bs_msg_events[0] {
		MessageSendEvent::UpdateHTLCs { node_id, updates, .. } => {
			assert_eq!(*node_id, node_a_id);
			updates.clone()
		},
		_ => panic!("Unexpected event {:?}", bs_msg_events[0]),
	};
	assert!(bs_cs.update_add_htlcs.is_empty() && bs_cs.update_fee.is_none());

	nodes[0].node.handle_commitment_signed_batch_test(node_b_id, &bs_cs.commitment_signed);
	check_added_monitors(&nodes[0], 1);
	let as_second_raa = lightning::get_event_msg!(nodes[0], MessageSendEvent::SendRevokeAndACK, node_b_id);
	nodes[0].node.handle_revoke_and_ack(node_b_id, &bs_second_raa);
	check_added_monitors(&nodes[0], 1);
	nodes[1].node.handle_revoke_and_ack(node_a_id, &as_second_raa);
	check_added_monitors(&nodes[1], 1);

	// Both sides agree on the new feerate and the HTLC goes through.
	let feerate_a = nodes[0].node.list_channels()[0].feerate_sat_per_1000_weight.unwrap();
	let feerate_b = nodes[1].node.list_channels()[0].feerate_sat_per_1000_weight.unwrap();
	assert_eq!(feerate_a, feerate_b);
	assert_eq!(feerate_a, as_fee_update.update_fee.as_ref().unwrap().feerate_per_kw);

	expect_and_process_pending_htlcs(&nodes[0], false);
	lightning::expect_payment_claimable!(nodes[0], payment_hash, payment_secret, 1_000_000);
	claim_payment(&nodes[1], &[&nodes[0]], payment_preimage);

		for n in nodes.iter() {
			n.node.get_and_clear_pending_msg_events();
			n.node.get_and_clear_pending_events();
			n.chain_monitor.added_monitors.lock().unwrap().clear();
		}
		core::mem::forget(nodes);
	}
	String::from("1")
}

/// channel_reload_battery: scenarios 1-3 of channel_reload_probe. Output `<failed> <run>`.
fn channel_reload_battery(_a: &mut Vec<i128>) -> String {
	let (mut bad, mut total) = (0u32, 0u32);
	for sc in 1i128..=3 {
		total += 1;
		match catch_unwind(AssertUnwindSafe(|| channel_reload_probe(&mut vec![sc]))) {
			Ok(v) if v == "1" => {},
			_ => bad += 1,
		}
	}
	format!("{} {}", bad, total)
}

/// phantom_fulfill_probe: a payment to a phantom node over a real channel is claimed; the sender must be able to read the
/// fulfil attribution data of both hops - the real receiving node and the phantom hop (which reports zero). The test
/// utilities and the assertions below check every step; output `1`.
fn phantom_fulfill_probe(_a: &mut Vec<i128>) -> String {
	use lightning::events::Event;
	use lightning::ln::channelmanager::{PaymentId, MIN_CLTV_EXPIRY_DELTA};
	use lightning::ln::msgs::{BaseMessageHandler, ChannelMessageHandler};
	use lightning::ln::outbound_payment::RecipientOnionFields;
	use lightning::routing::router::{find_route, PaymentParameters, RouteHint, RouteHintHop, RouteParameters};
	use lightning::routing::gossip::RoutingFees;
	use lightning::sign::{NodeSigner, Recipient};

	// When a payment to a phantom node is claimed, the fulfill attribution data must be readable by
	// the sender for every hop on the path, i.e. both the real receiving node and the phantom hop.
	let chanmon_cfgs = create_chanmon_cfgs(2);
	let node_cfgs = create_node_cfgs(2, &chanmon_cfgs);
	let node_chanmgrs = create_node_chanmgrs(2, &node_cfgs, &[None, None]);
	let nodes = create_network(2, &node_cfgs, &node_chanmgrs);

	let channel = create_announced_chan_between_nodes(&nodes, 0, 1);

	let recv_amt_msat = 10_000;
	let (payment_preimage, payment_hash, payment_secret) =
		get_payment_preimage_hash(&nodes[1], Some(recv_amt_msat), None);
	let (route, _phantom_scid) = {
		let phantom_pubkey = nodes[1].keys_manager.get_node_id(Recipient::PhantomNode).unwrap();
		let phantom_route_hint = nodes[1].node.get_phantom_route_hints();
		let payment_params = PaymentParameters::from_node_id(phantom_pubkey, TEST_FINAL_CLTV)
			.with_bolt11_features(nodes[1].node.bolt11_invoice_features())
			.unwrap()
			.with_route_hints(vec![RouteHint(vec![
				RouteHintHop {
					src_node_id: nodes[0].node.get_our_node_id(),
					short_channel_id: channel.0.contents.short_channel_id,
					fees: RoutingFees { base_msat: channel.0.contents.fee_base_msat, proportional_millionths: channel.0.contents.fee_proportional_millionths },
					cltv_expiry_delta: channel.0.contents.cltv_expiry_delta,
					htlc_minimum_msat: None,
					htlc_maximum_msat: None,
				},
				RouteHintHop {
					src_node_id: phantom_route_hint.real_node_pubkey,
					short_channel_id: phantom_route_hint.phantom_scid,
					fees: RoutingFees { base_msat: 0, proportional_millionths: 0 },
					cltv_expiry_delta: MIN_CLTV_EXPIRY_DELTA,
					htlc_minimum_msat: None,
					htlc_maximum_msat: None,
				},
			])])
			.unwrap();
		let scorer = lightning::util::test_utils::TestScorer::new();
		let first_hops = nodes[0].node.list_usable_channels();
		let route_params = RouteParameters::from_payment_params_and_value(payment_params, recv_amt_msat);
		(
			find_route(&nodes[0].node.get_our_node_id(), &route_params, nodes[0].network_graph, Some(&first_hops.iter().collect::<Vec<_>>()), nodes[0].logger, &scorer, &Default::default(), &[0u8; 32]).unwrap(),
			phantom_route_hint.phantom_scid,
		)
	};
	assert_eq!(route.paths[0].hops.len(), 2);

	// Route the HTLC through to the (phantom) destination.
	let recipient_onion = RecipientOnionFields::secret_only(payment_secret, recv_amt_msat);
	let payment_id = PaymentId(payment_hash.0);
	nodes[0]
		.node
		.send_payment_with_route(route.clone(), payment_hash, recipient_onion, payment_id)
		.unwrap();
	check_added_monitors(&nodes[0], 1);
	let update_0 = get_htlc_update_msgs(&nodes[0], &nodes[1].node.get_our_node_id());
	let update_add = update_0.update_add_htlcs[0].clone();

	nodes[1].node.handle_update_add_htlc(nodes[0].node.get_our_node_id(), &update_add);
	do_commitment_signed_dance(&nodes[1], &nodes[0], &update_0.commitment_signed, false, true);

	expect_htlc_failure_conditions(nodes[1].node.get_and_clear_pending_events(), &[]);
	nodes[1].node.process_pending_htlc_forwards();
	expect_htlc_failure_conditions(nodes[1].node.get_and_clear_pending_events(), &[]);
	nodes[1].node.process_pending_htlc_forwards();
	lightning::expect_payment_claimable!(
		nodes[1],
		payment_hash,
		payment_secret,
		recv_amt_msat,
		None,
		route.paths[0].hops.last().unwrap().pubkey
	);

	// Claim and pass the fulfill back to the sender.
	nodes[1].node.claim_funds(payment_preimage);
	check_added_monitors(&nodes[1], 1);
	let claimed = nodes[1].node.get_and_clear_pending_events();
	assert_eq!(claimed.len(), 1);
	assert!(matches!(claimed[0], Event::PaymentClaimed { .. }));

	let mut update_1 = get_htlc_update_msgs(&nodes[1], &nodes[0].node.get_our_node_id());
	assert_eq!(update_1.update_fulfill_htlcs.len(), 1);
	let fulfill = update_1.update_fulfill_htlcs.remove(0);
	assert!(fulfill.attribution_data.is_some());
	nodes[0].node.handle_update_fulfill_htlc(nodes[1].node.get_our_node_id(), fulfill);
	do_commitment_signed_dance(&nodes[0], &nodes[1], &update_1.commitment_signed, false, false);

	let events = nodes[0].node.get_and_clear_pending_events();
	let mut saw_path_success = false;
	for ev in events {
		if let Event::PaymentPathSuccessful { path, hold_times, .. } = ev {
			saw_path_success = true;
			assert_eq!(path.hops.len(), 2);
			// One hold time for the real receiving node and one for the phantom hop. The final
			// (phantom) hop always reports zero.
			assert_eq!(hold_times.len(), 2, "sender failed to read attribution data: {:?}", hold_times);
			assert_eq!(hold_times[1], 0);
		}
	}
	assert!(saw_path_success);
	check_added_monitors(&nodes[0], 1);

	for n in nodes.iter() {
		n.node.get_and_clear_pending_msg_events();
		n.node.get_and_clear_pending_events();
		n.chain_monitor.added_monitors.lock().unwrap().clear();
	}
	core::mem::forget(nodes);
	String::from("1")
}

/// phantom_fulfill_battery: phantom_fulfill_probe, a panic counted as a failure. Output `<failed> <run>`.
fn phantom_fulfill_battery(_a: &mut Vec<i128>) -> String {
	match catch_unwind(AssertUnwindSafe(|| phantom_fulfill_probe(&mut vec![]))) {
		Ok(v) if v == "1" => String::from("0 1"),
		_ => String::from("1 1"),
	}
}

/// closing_fee_touch_probe: a cooperative close in which the funder's maximum closing fee is exactly the fundee's minimum:
/// the two ranges share one fee, so the close must go through at that fee and pay each side its balance less only
/// that fee. The test utilities and the assertions below check every step; output `1`.
fn closing_fee_touch_probe(_a: &mut Vec<i128>) -> String {
	use lightning::chain::chaininterface::ConfirmationTarget;
	use lightning::events::ClosureReason;
	use lightning::ln::msgs::{BaseMessageHandler, ChannelMessageHandler, MessageSendEvent};

	// The funder's maximum closing fee is exactly the fundee's minimum closing fee: the ranges
	// overlap in a single value and the cooperative close must succeed at that fee, paying each
	// side its balance less only that fee (taken from the funder).
	let chanmon_cfgs = create_chanmon_cfgs(2);
	let node_cfgs = create_node_cfgs(2, &chanmon_cfgs);
	let node_chanmgrs = create_node_chanmgrs(2, &node_cfgs, &[None, None]);
	let nodes = create_network(2, &node_cfgs, &node_chanmgrs);
	let node_a_id = nodes[0].node.get_our_node_id();
	let node_b_id = nodes[1].node.get_our_node_id();
	let chan = create_announced_chan_between_nodes_with_value(&nodes, 0, 1, 100_000, 0);
	send_payment(&nodes[0], &[&nodes[1]], 10_000_000);

	nodes[0].node.close_channel(&chan.2, &node_b_id).unwrap();
	let as_shutdown = lightning::get_event_msg!(nodes[0], MessageSendEvent::SendShutdown, node_b_id);
	nodes[1].node.handle_shutdown(node_a_id, &as_shutdown);
	let bs_shutdown = lightning::get_event_msg!(nodes[1], MessageSendEvent::SendShutdown, node_a_id);
	nodes[0].node.handle_shutdown(node_b_id, &bs_shutdown);
	let as_closing = lightning::get_event_msg!(nodes[0], MessageSendEvent::SendClosingSigned, node_b_id);
	let as_range = as_closing.fee_range.clone().unwrap();

	// Weight of the closing transaction (see get_closing_transaction_weight).
	let w = 426
		+ (9 + as_shutdown.scriptpubkey.len() as u64) * 4
		+ (9 + bs_shutdown.scriptpubkey.len() as u64) * 4;
	assert_eq!(253 * w / 1000, as_range.min_fee_satoshis);
	// Pick B's minimum closing feerate so that B's minimum fee equals A's maximum fee.
	let feerate = (as_range.max_fee_satoshis * 1000 + w - 1) / w;
	assert_eq!(feerate * w / 1000, as_range.max_fee_satoshis);
	chanmon_cfgs[1]
		.fee_estimator
		.target_override
		.lock()
		.unwrap()
		.insert(ConfirmationTarget::ChannelCloseMinimum, feerate as u32);

	nodes[1].node.handle_closing_signed(node_a_id, &as_closing);
	let bs_events = nodes[1].node.get_and_clear_pending_msg_events();
	assert_eq!(bs_events.len(), 1);
	let bs_closing = match &bs_events[0] {
		MessageSendEvent::SendClosingSigned { msg, .. } => msg.clone(),
		ev => panic!("B refused a closing fee inside both ranges: {:?}", ev),
	};
	assert_eq!(bs_closing.fee_satoshis, as_range.max_fee_satoshis);
	assert_eq!(bs_closing.fee_range.as_ref().unwrap().min_fee_satoshis, as_range.max_fee_satoshis);

	nodes[0].node.handle_closing_signed(node_b_id, &bs_closing);
	let (_, as_closing_2) = get_closing_signed_broadcast(&nodes[0], node_b_id);
	nodes[1].node.handle_closing_signed(node_a_id, &as_closing_2.unwrap());
	let (_, none_b) = get_closing_signed_broadcast(&nodes[1], node_a_id);
	assert!(none_b.is_none());
	let tx_a = nodes[0].tx_broadcaster.txn_broadcasted.lock().unwrap().remove(0);
	let tx_b = nodes[1].tx_broadcaster.txn_broadcasted.lock().unwrap().remove(0);
	assert_eq!(tx_a, tx_b);
	lightning::check_spends!(tx_a, chan.3);
	let mut values: Vec<u64> = tx_a.output.iter().map(|o| o.value.to_sat()).collect();
	values.sort();
	assert_eq!(values, vec![10_000, 90_000 - as_range.max_fee_satoshis]);
	check_closed_event(&nodes[0], 1, ClosureReason::LocallyInitiatedCooperativeClosure, &[node_b_id], 100_000);
	check_closed_event(&nodes[1], 1, ClosureReason::CounterpartyInitiatedCooperativeClosure, &[node_a_id], 100_000);

	for n in nodes.iter() {
		n.node.get_and_clear_pending_msg_events();
		n.node.get_and_clear_pending_events();
		n.chain_monitor.added_monitors.lock().unwrap().clear();
		n.tx_broadcaster.txn_broadcast();
	}
	core::mem::forget(nodes);
	String::from("1")
}

/// closing_fee_range_battery: closing_fee_touch_probe, a panic counted as a failure. Output `<failed> <run>`.
fn closing_fee_range_battery(_a: &mut Vec<i128>) -> String {
	match catch_unwind(AssertUnwindSafe(|| closing_fee_touch_probe(&mut vec![]))) {
		Ok(v) if v == "1" => String::from("0 1"),
		_ => String::from("1 1"),
	}
}

/// late_preimage_reorg_battery: preimage_after_conf_reorg_probe over commitment kinds (the counterparty's / our own), delays
/// k before the preimage arrives (incl. past ANTI_REORG_DELAY) and reorg depths d: the claim must be tracked once the
/// preimage is known, must survive a reorg iff the commitment's block survives it (d <= k), and must then still be
/// there when the chain grows again. Output `<cases that misbehaved> <cases>`.
fn late_preimage_reorg_battery(_a: &mut Vec<i128>) -> String {
	let (mut bad, mut total) = (0u32, 0u32);
	for own in 0..2i128 {
		for (k, d) in [(0i128, 0i128), (1, 1), (2, 1), (2, 2), (2, 3), (3, 3), (5, 1), (5, 5), (6, 1), (8, 1), (8, 3)] {
			total += 1;
			let survive = d <= k;
			let want = if d == 0 { String::from("1 1 1") } else if survive { String::from("1 1 1") } else { String::from("1 0") };
			let mut args = if survive { vec![k, d, own, 2] } else { vec![k, d, own] };
			match catch_unwind(AssertUnwindSafe(|| preimage_after_conf_reorg_probe(&mut args))) {
				Ok(v) if v == want => {},
				other => {
					bad += 1;
					if std::env::var("ORACLE_DEBUG").is_ok() {
						eprintln!("late_preimage_reorg_battery: own {} k {} d {}: {:?} (wanted {})", own, k, d, other.ok(), want);
					}
				},
			}
		}
	}
	format!("{} {}", bad, total)
}

/// monitor_update_battery: scenarios 1-3 of monitor_update_probe, monitor_update_deferred_probe and monitor_update_blocked_probe. Output: `<scenarios that failed or panicked> <scenarios run>`.
fn monitor_update_battery(_a: &mut Vec<i128>) -> String {
	let (mut bad, mut total) = (0u32, 0u32);
	for sc in 1i128..=3 {
		total += 1;
		match catch_unwind(AssertUnwindSafe(|| monitor_update_probe(&mut vec![sc]))) {
			Ok(v) if v == "1" => {},
			_ => bad += 1,
		}
	}
	for probe in [monitor_update_deferred_probe as fn(&mut Vec<i128>) -> String, monitor_update_blocked_probe] {
		total += 1;
		match catch_unwind(AssertUnwindSafe(|| probe(&mut vec![]))) {
			Ok(v) if v == "1" => {},
			_ => bad += 1,
		}
	}
	format!("{} {}", bad, total)
}

/// own_csv_probe <delay node 0 imposes on node 1> <delay node 1 imposes on node 0>
/// Two live nodes with those `our_to_self_delay`s and one channel with a little traffic; node 0's own commitment
/// transaction confirms. Output: `<delay by which node 0's monitor announces its delayed balance> <to_self_delay of the
/// DelayedPaymentOutput descriptor it hands out when that height is reached, 0 if none>` - both must be the delay
/// node 1 chose.
fn own_csv_probe(a: &mut Vec<i128>) -> String {
	use lightning::chain::channelmonitor::Balance;
	use lightning::events::Event;
	use lightning::sign::SpendableOutputDescriptor;
	let (d0, d1) = (a[0] as u16, a[1] as u16);
	let chanmon_cfgs = create_chanmon_cfgs(2);
	let node_cfgs = create_node_cfgs(2, &chanmon_cfgs);
	let mut c0 = test_default_channel_config();
	c0.channel_handshake_config.our_to_self_delay = d0;
	let mut c1 = test_default_channel_config();
	c1.channel_handshake_config.our_to_self_delay = d1;
	let node_chanmgrs = create_node_chanmgrs(2, &node_cfgs, &[Some(c0), Some(c1)]);
	let nodes = create_network(2, &node_cfgs, &node_chanmgrs);
	let chan = create_announced_chan_between_nodes(&nodes, 0, 1);
	let chan_id = chan.2;
	send_payment(&nodes[0], &[&nodes[1]], 10_000_000);
	let commitment = {
		let mon = nodes[0].chain_monitor.chain_monitor.get_monitor(chan_id).unwrap();
		mon.unsafe_get_latest_holder_commitment_txn(&nodes[0].logger)[0].clone()
	};
	mine_transaction(&nodes[0], &commitment);
	let conf = nodes[0].best_block_info().1;
	let mut mature = 0u32;
	for b in nodes[0].chain_monitor.chain_monitor.get_monitor(chan_id).unwrap().get_claimable_balances() {
		if let Balance::ClaimableAwaitingConfirmations { confirmation_height, .. } = b {
			mature = confirmation_height;
		}
	}
	if mature == 0 {
		core::mem::forget(nodes);
		return "0 0".to_string();
	}
	let announced = mature + 1 - conf;
	connect_blocks(&nodes[0], mature - conf);
	let mut desc_delay = 0u16;
	for ev in nodes[0].chain_monitor.chain_monitor.get_and_clear_pending_events() {
		if let Event::SpendableOutputs { outputs, .. } = ev {
			for o in outputs {
				if let SpendableOutputDescriptor::DelayedPaymentOutput(d) = o {
					desc_delay = d.to_self_delay;
				}
			}
		}
	}
	core::mem::forget(nodes);
	format!("{} {}", announced, desc_delay)
}

/// own_csv_battery: own_csv_probe over four pairs of delays (three asymmetric). Output: `<bad> <total>`.
fn own_csv_battery(_a: &mut Vec<i128>) -> String {
	let (mut bad, mut total) = (0u32, 0u32);
	for (d0, d1) in [(150i128, 200i128), (200, 150), (144, 1000), (300, 300)] {
		total += 1;
		let want = format!("{} {}", d1, d1);
		match catch_unwind(AssertUnwindSafe(|| own_csv_probe(&mut vec![d0, d1]))) {
			Ok(v) if v == want => {},
			other => {
				bad += 1;
				if std::env::var("ORACLE_DEBUG").is_ok() {
					eprintln!("own_csv_battery: {} {}: {:?} (wanted {})", d0, d1, other.ok(), want);
				}
			},
		}
	}
	format!("{} {}", bad, total)
}

/// prev_config_probe <ticks after the first policy change> <ticks after the second>
/// A live forwarding node changes its relay policy on a channel twice: base fee 1000 -> 2000 msat, <k1> timer ticks,
/// 2000 -> 3000 msat, <k2> timer ticks. Then the real ChannelManager is asked (can_forward_probe hook) whether it would
/// forward an HTLC paying exactly the base fee of each of the three policies. Output: `<accepts 1000> <accepts 2000>
/// <accepts 3000>`. A policy may be honoured only while it is current or was the one replaced last, and then for
/// fewer than EXPIRE_PREV_CONFIG_TICKS (5) ticks.
fn prev_config_probe(a: &mut Vec<i128>) -> String {
	let (k1, k2) = (a[0], a[1]);
	let chanmon_cfgs = create_chanmon_cfgs(2);
	let node_cfgs = create_node_cfgs(2, &chanmon_cfgs);
	let node_chanmgrs = create_node_chanmgrs(2, &node_cfgs, &[None, None]);
	let nodes = create_network(2, &node_cfgs, &node_chanmgrs);
	let chan = create_announced_chan_between_nodes(&nodes, 0, 1);
	let scid = chan.0.contents.short_channel_id;
	let chan_id = chan.2;
	let peer = nodes[1].node.get_our_node_id();
	let mut cfg = ChannelConfig::default();
	cfg.forwarding_fee_proportional_millionths = 0;
	cfg.cltv_expiry_delta = 72;
	let mut set = |base: u32| {
		cfg.forwarding_fee_base_msat = base;
		nodes[0].node.update_channel_config(&peer, &[chan_id], &cfg).unwrap();
		let _ = nodes[0].node.get_and_clear_pending_msg_events();
	};
	set(1000);
	// let the policy before 1000 lapse so that 1000 is the only one in force
	for _ in 0..6 {
		nodes[0].node.timer_tick_occurred();
	}
	set(2000);
	for _ in 0..k1 {
		nodes[0].node.timer_tick_occurred();
	}
	set(3000);
	for _ in 0..k2 {
		nodes[0].node.timer_tick_occurred();
	}
	let _ = nodes[0].node.get_and_clear_pending_msg_events();
	let h = nodes[0].best_block_info().1;
	let mut out = Vec::new();
	for fee in [1000u64, 2000, 3000] {
		let r = lightning::ln::channelmanager::verif_hooks::can_forward_probe(
			nodes[0].node, 1_000_000 + fee, h + 200, scid, 1_000_000, h + 200 - 72, true,
		);
		out.push(match r { Ok(_) => "1", Err(_) => "0" });
	}
	core::mem::forget(nodes);
	out.join(" ")
}

/// prev_config_battery: prev_config_probe over nine (k1, k2). Output: `<bad> <total>`.
fn prev_config_battery(_a: &mut Vec<i128>) -> String {
	let (mut bad, mut total) = (0u32, 0u32);
	for (k1, k2) in [(0i128, 0i128), (2, 0), (2, 2), (3, 3), (4, 1), (0, 4), (0, 5), (4, 4), (6, 0)] {
		total += 1;
		let want = format!("0 {} 1", if k2 < 5 { 1 } else { 0 });
		match catch_unwind(AssertUnwindSafe(|| prev_config_probe(&mut vec![k1, k2]))) {
			Ok(v) if v == want => {},
			other => {
				bad += 1;
				if std::env::var("ORACLE_DEBUG").is_ok() {
					eprintln!("prev_config_battery: {} {}: {:?} (wanted {})", k1, k2, other.ok(), want);
				}
			},
		}
	}
	format!("{} {}", bad, total)
}

/// early_fail_back_probe <htlc only in the peer's previous commitment 0/1>
/// A -> B -> C with a routed payment that C never resolves; B force-closes B-C when the outbound HTLC has timed out but
/// its commitment never confirms. With the flag, C first fails the HTLC (update_fail_htlc + commitment_signed), B answers
/// (revoke_and_ack + commitment_signed) and C goes silent: the HTLC then survives only in C's PREVIOUS, unrevoked
/// commitment. Blocks are connected on B one at a time; output: `<inbound expiry - height>` at the first block after
/// which B fails the HTLC back to A (an HTLCHandlingFailed event), or `-1` if it has not done so when the inbound HTLC
/// expires. B must give up LATENCY_GRACE_PERIOD_BLOCKS (3) blocks before the inbound expiry.
fn early_fail_back_probe(a: &mut Vec<i128>) -> String {
	use lightning::events::Event;
	use lightning::ln::msgs::ChannelMessageHandler;
	let prev_only = a[0] != 0;
	let chanmon_cfgs = create_chanmon_cfgs(3);
	let node_cfgs = create_node_cfgs(3, &chanmon_cfgs);
	let legacy_cfg = test_legacy_channel_config();
	let node_chanmgrs = create_node_chanmgrs(3, &node_cfgs, &[Some(legacy_cfg.clone()), Some(legacy_cfg.clone()), Some(legacy_cfg)]);
	let nodes = create_network(3, &node_cfgs, &node_chanmgrs);
	let node_b_id = nodes[1].node.get_our_node_id();
	let node_c_id = nodes[2].node.get_our_node_id();
	let chan_1 = create_announced_chan_between_nodes(&nodes, 0, 1);
	let _chan_2 = create_announced_chan_between_nodes(&nodes, 1, 2);
	for n in 0..3 {
		connect_blocks(&nodes[n], 2 * CHAN_CONFIRM_DEPTH + 1 - nodes[n].best_block_info().1);
	}
	let (_, payment_hash, ..) = route_payment(&nodes[0], &[&nodes[1], &nodes[2]], 3_000_000);
	let inbound_expiry = nodes[1]
		.node
		.list_channels()
		.iter()
		.find(|c| c.channel_id == chan_1.2)
		.and_then(|c| c.pending_inbound_htlcs.first().map(|h| h.cltv_expiry))
		.expect("inbound HTLC");
	if prev_only {
		nodes[2].node.fail_htlc_backwards(&payment_hash);
		nodes[2].node.process_pending_htlc_forwards();
		let _ = nodes[2].node.get_and_clear_pending_events();
		check_added_monitors(&nodes[2], 1);
		let cs_updates = get_htlc_update_msgs(&nodes[2], &node_b_id);
		nodes[1].node.handle_update_fail_htlc(node_c_id, &cs_updates.update_fail_htlcs[0]);
		nodes[1].node.handle_commitment_signed_batch_test(node_c_id, &cs_updates.commitment_signed);
		check_added_monitors(&nodes[1], 1);
		let _ = get_revoke_commit_msgs(&nodes[1], &node_c_id); // never delivered
	}
	let mut failed_at: i128 = -1;
	while nodes[1].best_block_info().1 < inbound_expiry {
		connect_blocks(&nodes[1], 1);
		let _ = nodes[1].node.get_and_clear_pending_msg_events();
		nodes[1].node.process_pending_htlc_forwards();
		let evs = nodes[1].node.get_and_clear_pending_events();
		let _ = nodes[1].node.get_and_clear_pending_msg_events();
		nodes[1].chain_monitor.added_monitors.lock().unwrap().clear();
		if evs.iter().any(|e| matches!(e, Event::HTLCHandlingFailed { .. })) {
			failed_at = inbound_expiry as i128 - nodes[1].best_block_info().1 as i128;
			break;
		}
	}
	nodes[1].tx_broadcaster.txn_broadcasted.lock().unwrap().clear();
	core::mem::forget(nodes);
	format!("{}", failed_at)
}

/// early_fail_back_battery: early_fail_back_probe 0 and 1; both must report 3. Output: `<bad> <total>`.
fn early_fail_back_battery(_a: &mut Vec<i128>) -> String {
	let (mut bad, mut total) = (0u32, 0u32);
	for mode in [0i128, 1] {
		total += 1;
		match catch_unwind(AssertUnwindSafe(|| early_fail_back_probe(&mut vec![mode]))) {
			Ok(v) if v == "3" => {},
			other => {
				bad += 1;
				if std::env::var("ORACLE_DEBUG").is_ok() {
					eprintln!("early_fail_back_battery: mode {}: {:?} (wanted 3)", mode, other.ok());
				}
			},
		}
	}
	format!("{} {}", bad, total)
}

/// dup_hash_onchain_probe: A -> B -> C -> D and A -> B -> C -> E carry two HTLCs with the SAME payment hash over B-C. C
/// learns the preimage from E, C's commitment confirms and C claims both HTLC outputs with the preimage, both HTLC-Success
/// transactions confirming in ONE block on B's chain. Output: the number of `PaymentForwarded { claim_from_onchain_tx }`
/// events B raises - 2, one per inbound HTLC it must now claim from A (ported from the demonstration of seeded change
/// C02r7-m3).
fn dup_hash_onchain_probe(_a: &mut Vec<i128>) -> String {
	use lightning::events::{ClosureReason, Event};
	use lightning::ln::channelmanager::PaymentId;
	use lightning::ln::msgs::ChannelMessageHandler;
	use lightning::routing::router::PaymentParameters;
	let chanmon_cfgs = create_chanmon_cfgs(5);
	let node_cfgs = create_node_cfgs(5, &chanmon_cfgs);
	let mut config = test_legacy_channel_config();
	config.channel_config.forwarding_fee_base_msat = 196;
	let configs = [Some(config.clone()), Some(config.clone()), Some(config.clone()), Some(config.clone()), Some(config.clone())];
	let node_chanmgrs = create_node_chanmgrs(5, &node_cfgs, &configs);
	let nodes = create_network(5, &node_cfgs, &node_chanmgrs);
	let node_b_id = nodes[1].node.get_our_node_id();
	let node_c_id = nodes[2].node.get_our_node_id();
	let node_e_id = nodes[4].node.get_our_node_id();
	create_announced_chan_between_nodes(&nodes, 0, 1);
	let chan_2 = create_announced_chan_between_nodes(&nodes, 1, 2);
	create_announced_chan_between_nodes(&nodes, 2, 3);
	create_announced_chan_between_nodes(&nodes, 2, 4);
	let (our_payment_preimage, dup_payment_hash, ..) = route_payment(&nodes[0], &[&nodes[1], &nodes[2], &nodes[3]], 900_000);
	let (payment_secret, _) = nodes[4].node.create_inbound_payment_for_hash(dup_payment_hash, None, 7200, None, None).unwrap();
	let payment_params = PaymentParameters::from_node_id(node_e_id, TEST_FINAL_CLTV)
		.with_bolt11_features(nodes[4].node.bolt11_invoice_features())
		.unwrap();
	let (route, _, _, _) = lightning::get_route_and_payment_hash!(nodes[0], nodes[4], payment_params, 800_000);
	let path: &[&[_]] = &[&[&nodes[1], &nodes[2], &nodes[4]]];
	send_along_route_with_secret(&nodes[0], route, path, 800_000, dup_payment_hash, payment_secret);
	let _ = PaymentId([0; 32]);
	let commitment_txn = lightning::get_local_commitment_txn!(nodes[2], chan_2.2);
	nodes[4].node.claim_funds(our_payment_preimage);
	let _ = nodes[4].node.get_and_clear_pending_events();
	check_added_monitors(&nodes[4], 1);
	let mut updates = get_htlc_update_msgs(&nodes[4], &node_c_id);
	nodes[2].node.handle_update_fulfill_htlc(node_e_id, updates.update_fulfill_htlcs.remove(0));
	let _cs_updates = get_htlc_update_msgs(&nodes[2], &node_b_id);
	let _ = nodes[2].node.get_and_clear_pending_events();
	check_added_monitors(&nodes[2], 1);
	do_commitment_signed_dance(&nodes[2], &nodes[4], &updates.commitment_signed, false, false);
	mine_transaction(&nodes[2], &commitment_txn[0]);
	check_closed_broadcast(&nodes[2], 1, true);
	check_added_monitors(&nodes[2], 1);
	check_closed_event(&nodes[2], 1, ClosureReason::CommitmentTxConfirmed, &[node_b_id], 100000);
	let htlc_success_txn: Vec<_> = nodes[2].tx_broadcaster.txn_broadcasted.lock().unwrap().clone();
	assert_eq!(htlc_success_txn.len(), 2);
	mine_transaction(&nodes[1], &commitment_txn[0]);
	check_closed_broadcast(&nodes[1], 1, true);
	check_added_monitors(&nodes[1], 1);
	check_closed_event(&nodes[1], 1, ClosureReason::CommitmentTxConfirmed, &[node_c_id], 100000);
	mine_transactions(&nodes[1], &[&htlc_success_txn[0], &htlc_success_txn[1]]);
	let events = nodes[1].node.get_and_clear_pending_events();
	let forwarded = events.iter().filter(|ev| matches!(ev, Event::PaymentForwarded { claim_from_onchain_tx: true, .. })).count();
	nodes[1].chain_monitor.added_monitors.lock().unwrap().clear();
	let _ = nodes[1].node.get_and_clear_pending_msg_events();
	for n in 0..5 {
		nodes[n].tx_broadcaster.txn_broadcasted.lock().unwrap().clear();
	}
	core::mem::forget(nodes);
	format!("{}", forwarded)
}

/// onchain_dedup_battery: dup_hash_onchain_probe must report 2. Output: `<bad> <total>`.
fn onchain_dedup_battery(_a: &mut Vec<i128>) -> String {
	match catch_unwind(AssertUnwindSafe(|| dup_hash_onchain_probe(&mut vec![]))) {
		Ok(v) if v == "2" => "0 1".to_string(),
		other => {
			if std::env::var("ORACLE_DEBUG").is_ok() {
				eprintln!("onchain_dedup_battery: {:?} (wanted 2)", other.ok());
			}
			"1 1".to_string()
		},
	}
}

/// two_edge_raa_probe: C forwards two payments over the same outbound channel C-D that came in over two different
/// channels (A-C, B-C); D claims both; both preimage updates of C's inbound-edge monitors are left in progress; then only
/// the A-C one completes. Output: `1` iff C still holds back the C-D monitor update that lets that monitor forget the
/// preimages (the B-C monitor does not durably have its preimage yet), `0` if it was released (ported from the
/// demonstration of seeded change C02r7-m1).
fn two_edge_raa_probe(_a: &mut Vec<i128>) -> String {
	use lightning::chain::ChannelMonitorUpdateStatus;
	use lightning::ln::msgs::{ChannelMessageHandler, MessageSendEvent};
	let chanmon_cfgs = create_chanmon_cfgs(4);
	let node_cfgs = create_node_cfgs(4, &chanmon_cfgs);
	let node_chanmgrs = create_node_chanmgrs(4, &node_cfgs, &[None, None, None, None]);
	let nodes = create_network(4, &node_cfgs, &node_chanmgrs);
	let node_c_id = nodes[2].node.get_our_node_id();
	let node_d_id = nodes[3].node.get_our_node_id();
	let chan_id_ac = create_announced_chan_between_nodes(&nodes, 0, 2).2;
	let _chan_id_bc = create_announced_chan_between_nodes(&nodes, 1, 2).2;
	let chan_id_cd = create_announced_chan_between_nodes(&nodes, 2, 3).2;
	let (preimage_a, _hash_a, ..) = route_payment(&nodes[0], &[&nodes[2], &nodes[3]], 1_000_000);
	let (preimage_b, _hash_b, ..) = route_payment(&nodes[1], &[&nodes[2], &nodes[3]], 1_000_000);
	nodes[3].node.claim_funds(preimage_a);
	check_added_monitors(&nodes[3], 1);
	let _ = nodes[3].node.get_and_clear_pending_events();
	let mut ds_updates = get_htlc_update_msgs(&nodes[3], &node_c_id);
	chanmon_cfgs[2].persister.set_update_ret(ChannelMonitorUpdateStatus::InProgress);
	nodes[2].node.handle_update_fulfill_htlc(node_d_id, ds_updates.update_fulfill_htlcs.remove(0));
	check_added_monitors(&nodes[2], 1);
	let _ = nodes[2].node.get_and_clear_pending_msg_events();
	nodes[2].node.handle_commitment_signed_batch_test(node_d_id, &ds_updates.commitment_signed);
	check_added_monitors(&nodes[2], 1);
	let (cs_raa, cs_cs) = get_revoke_commit_msgs(&nodes[2], &node_d_id);
	nodes[3].node.handle_revoke_and_ack(node_c_id, &cs_raa);
	check_added_monitors(&nodes[3], 1);
	nodes[3].node.handle_commitment_signed_batch_test(node_c_id, &cs_cs);
	check_added_monitors(&nodes[3], 1);
	let ds_final_raa = lightning::get_event_msg!(nodes[3], MessageSendEvent::SendRevokeAndACK, node_c_id);
	nodes[2].node.handle_revoke_and_ack(node_d_id, &ds_final_raa);
	check_added_monitors(&nodes[2], 0);
	nodes[3].node.claim_funds(preimage_b);
	check_added_monitors(&nodes[3], 1);
	let _ = nodes[3].node.get_and_clear_pending_events();
	let mut ds_updates = get_htlc_update_msgs(&nodes[3], &node_c_id);
	chanmon_cfgs[2].persister.set_update_ret(ChannelMonitorUpdateStatus::InProgress);
	nodes[2].node.handle_update_fulfill_htlc(node_d_id, ds_updates.update_fulfill_htlcs.remove(0));
	check_added_monitors(&nodes[2], 1);
	let _ = nodes[2].node.get_and_clear_pending_msg_events();
	let (ac_update_id, _) = nodes[2].chain_monitor.get_latest_mon_update_id(chan_id_ac);
	nodes[2].chain_monitor.added_monitors.lock().unwrap().clear();
	nodes[2].chain_monitor.chain_monitor.channel_monitor_updated(chan_id_ac, ac_update_id).unwrap();
	let _ = nodes[2].node.get_and_clear_pending_events();
	let _ = nodes[2].node.get_and_clear_pending_msg_events();
	// released = a monitor update for C-D reached the chain monitor
	let held = nodes[2].chain_monitor.added_monitors.lock().unwrap().iter().filter(|(id, _)| *id == chan_id_cd).count() == 0;
	nodes[2].chain_monitor.added_monitors.lock().unwrap().clear();
	for n in 0..4 {
		let _ = nodes[n].node.get_and_clear_pending_events();
		let _ = nodes[n].node.get_and_clear_pending_msg_events();
		nodes[n].chain_monitor.added_monitors.lock().unwrap().clear();
	}
	core::mem::forget(nodes);
	format!("{}", held as u8)
}

/// two_edge_raa_battery: two_edge_raa_probe must report 1. Output: `<bad> <total>`.
fn two_edge_raa_battery(_a: &mut Vec<i128>) -> String {
	match catch_unwind(AssertUnwindSafe(|| two_edge_raa_probe(&mut vec![]))) {
		Ok(v) if v == "1" => "0 1".to_string(),
		other => {
			if std::env::var("ORACLE_DEBUG").is_ok() {
				eprintln!("two_edge_raa_battery: {:?} (wanted 1)", other.ok());
			}
			"1 1".to_string()
		},
	}
}

/// channel_ready_twice_probe: node 0 funds two channels (to nodes 1 and 2) with ONE batch transaction; only node 1 has
/// answered funding_created, so node 0's channel to it waits for the rest of the batch. Node 1 sees the transaction
/// confirmed and sends channel_ready; node 0 processes it. Then a second channel_ready for the same channel naming a
/// DIFFERENT next commitment point is delivered. Output: `1` iff node 0 refuses it (an error for the peer / the channel is
/// closed), `0` if it is accepted silently - which would replace the point the first revoke_and_ack is checked against.
fn channel_ready_twice_probe(_a: &mut Vec<i128>) -> String {
	use lightning::ln::msgs::{ChannelMessageHandler, MessageSendEvent};
	let chanmon_cfgs = create_chanmon_cfgs(3);
	let node_cfgs = create_node_cfgs(3, &chanmon_cfgs);
	let node_chanmgrs = create_node_chanmgrs(3, &node_cfgs, &[None, None, None]);
	let nodes = create_network(3, &node_cfgs, &node_chanmgrs);
	let node_a_id = nodes[0].node.get_our_node_id();
	let node_b_id = nodes[1].node.get_our_node_id();
	let (tx, funding_created_msgs) =
		create_batch_channel_funding(&nodes[0], &[(&nodes[1], 100_000, 0, 42, None), (&nodes[2], 200_000, 0, 43, None)]);
	nodes[1].node.handle_funding_created(node_a_id, &funding_created_msgs[0]);
	check_added_monitors(&nodes[1], 1);
	let _ = nodes[1].node.get_and_clear_pending_events();
	let funding_signed_msg = lightning::get_event_msg!(nodes[1], MessageSendEvent::SendFundingSigned, node_a_id);
	nodes[0].node.handle_funding_signed(node_b_id, &funding_signed_msg);
	check_added_monitors(&nodes[0], 1);
	let _ = nodes[0].node.get_and_clear_pending_events();
	// node 1 sees the batch transaction confirmed
	mine_transaction(&nodes[1], &tx);
	connect_blocks(&nodes[1], CHAN_CONFIRM_DEPTH - 1);
	let ready = nodes[1]
		.node
		.get_and_clear_pending_msg_events()
		.into_iter()
		.find_map(|e| match e {
			MessageSendEvent::SendChannelReady { msg, .. } => Some(msg),
			_ => None,
		})
		.expect("channel_ready from node 1");
	nodes[0].node.handle_channel_ready(node_b_id, &ready);
	let first = nodes[0].node.get_and_clear_pending_msg_events();
	let refused_first = first.iter().any(|e| matches!(e, MessageSendEvent::HandleError { .. }));
	let mut forged = ready.clone();
	forged.next_per_commitment_point = nodes[2].node.get_our_node_id();
	nodes[0].node.handle_channel_ready(node_b_id, &forged);
	let second = nodes[0].node.get_and_clear_pending_msg_events();
	let refused = second.iter().any(|e| matches!(e, MessageSendEvent::HandleError { .. }));
	for n in 0..3 {
		let _ = nodes[n].node.get_and_clear_pending_events();
		let _ = nodes[n].node.get_and_clear_pending_msg_events();
		nodes[n].chain_monitor.added_monitors.lock().unwrap().clear();
		nodes[n].tx_broadcaster.txn_broadcasted.lock().unwrap().clear();
	}
	core::mem::forget(nodes);
	format!("{} {}", refused as u8, refused_first as u8)
}

/// channel_ready_battery: channel_ready_twice_probe must report `1 0` (the genuine one accepted, the forged one refused).
fn channel_ready_battery(_a: &mut Vec<i128>) -> String {
	match catch_unwind(AssertUnwindSafe(|| channel_ready_twice_probe(&mut vec![]))) {
		Ok(v) if v == "1 0" => "0 1".to_string(),
		other => {
			if std::env::var("ORACLE_DEBUG").is_ok() {
				eprintln!("channel_ready_battery: {:?} (wanted 1 0)", other.ok());
			}
			"1 1".to_string()
		},
	}
}

fn main() {
	if std::env::var("ORACLE_DEBUG").is_err() { std::panic::set_hook(Box::new(|_| {})); }
	let stdin = std::io::stdin();
	let stdout = std::io::stdout();
	let mut out = stdout.lock();
	for line in stdin.lock().lines() {
		let line = line.unwrap();
		let mut it = line.trim().split_whitespace();
		let name = match it.next() {
			Some(n) => n.to_string(),
			None => continue,
		};
		let mut args: Vec<i128> = it.map(|x| x.parse::<i128>().expect("bad int")).collect();
		let r = catch_unwind(AssertUnwindSafe(|| match name.as_str() {
			"forward_probe" => forward_probe(&mut args),
			"channel_ready_twice_probe" => channel_ready_twice_probe(&mut args),
			"channel_ready_battery" => channel_ready_battery(&mut args),
			"two_edge_raa_probe" => two_edge_raa_probe(&mut args),
			"two_edge_raa_battery" => two_edge_raa_battery(&mut args),
			"dup_hash_onchain_probe" => dup_hash_onchain_probe(&mut args),
			"onchain_dedup_battery" => onchain_dedup_battery(&mut args),
			"early_fail_back_probe" => early_fail_back_probe(&mut args),
			"early_fail_back_battery" => early_fail_back_battery(&mut args),
			"prev_config_probe" => prev_config_probe(&mut args),
			"prev_config_battery" => prev_config_battery(&mut args),
			"own_csv_probe" => own_csv_probe(&mut args),
			"own_csv_battery" => own_csv_battery(&mut args),
			"persister_probe" => persister_probe(&mut args),
			"monitor_update_probe" => monitor_update_probe(&mut args),
			"monitor_update_battery" => monitor_update_battery(&mut args),
			"payment_outcome_probe" => payment_outcome_probe(&mut args),
			"payment_outcome_battery" => payment_outcome_battery(&mut args),
			"mpp_outcome_probe" => mpp_outcome_probe(&mut args),
			"payment_restart_probe" => payment_restart_probe(&mut args),
			"late_preimage_reorg_battery" => late_preimage_reorg_battery(&mut args),
			"closing_fee_touch_probe" => closing_fee_touch_probe(&mut args),
			"closing_fee_range_battery" => closing_fee_range_battery(&mut args),
			"phantom_fulfill_probe" => phantom_fulfill_probe(&mut args),
			"phantom_fulfill_battery" => phantom_fulfill_battery(&mut args),
			"restart_forward_probe" => restart_forward_probe(&mut args),
			"restart_intercept_probe" => restart_intercept_probe(&mut args),
			"channel_reload_probe" => channel_reload_probe(&mut args),
			"channel_reload_battery" => channel_reload_battery(&mut args),
			"monitor_update_deferred_probe" => monitor_update_deferred_probe(&mut args),
			"monitor_update_blocked_probe" => monitor_update_blocked_probe(&mut args),
			"restart_probe" => restart_probe(&mut args),
			"restart_battery" => restart_battery(&mut args),
			"bolt12_restart_probe" => bolt12_restart_probe(&mut args),
			"mpp_inprogress_probe" => mpp_inprogress_probe(&mut args),
			"persister_battery" => persister_battery(&mut args),
			"closing_probe" => closing_probe(&mut args),
			"prune_probe" => prune_probe(&mut args),
			"monitor_reorg_probe" => monitor_reorg_probe(&mut args),
			"htlc_timeout_probe" => htlc_timeout_probe(&mut args),
			"revoked_htlc_claim_probe" => revoked_htlc_claim_probe(&mut args),
			"counterparty_claim_probe" => counterparty_claim_probe(&mut args),
			"holder_claim_probe" => holder_claim_probe(&mut args),
			"claim_deadline_probe" => claim_deadline_probe(&mut args),
			"mpp_partial_claim_probe" => mpp_partial_claim_probe(&mut args),
			"raa_probe" => raa_probe(&mut args),
			"commitment_signed_probe" => commitment_signed_probe(&mut args),
			"preimage_after_conf_reorg_probe" => preimage_after_conf_reorg_probe(&mut args),
			"late_preimage_same_hash_probe" => late_preimage_same_hash_probe(&mut args),
			"filter_block_probe" => filter_block_probe(&mut args),
			_ => format!("error unknown function {}", name),
		}));
		match r {
			Ok(s) if s.starts_with("error") => writeln!(out, "{}", s).unwrap(),
			Ok(s) => writeln!(out, "ok {}", s).unwrap(),
			Err(_) => writeln!(out, "panic").unwrap(),
		}
	}
	out.flush().unwrap();
}
