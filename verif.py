"""./verif setup | check <Cxx> [--tier quick|thorough] | replay <file>"""
import sys, os, json, importlib, traceback, argparse, time
sys.path.insert(0, os.path.dirname(os.path.abspath(__file__)))
from engine_m import session as S


def cmd_setup(args):
    t = time.time()
    S.ensure_mir('lightning')
    S.ensure_mir('lightning-block-sync')
    S.ensure_oracle('debug')
    S.ensure_oracle('debug', which='oracle_tu')
    from engine_k import runner as K
    rc = K.setup()
    print('setup done in %.1fs' % (time.time() - t))
    return rc


def cmd_check(args):
    seed = int(os.environ.get('VERIF_SEED', '0') or 0)
    tier = args.tier or os.environ.get('VERIF_TIER') or 'quick'
    if tier not in ('quick', 'thorough'):
        tier = 'quick'
    prop = args.prop
    ses = S.Session(prop, tier, seed)
    try:
        mod = importlib.import_module('obligations.' + prop)
        mod.run(ses)
    except S.BuildError as e:
        ses.inconclusive.append('build failed: %s' % str(e)[-1500:])
    except S.Inconclusive as e:
        ses.inconclusive.append(str(e))
    except Exception as e:
        ses.inconclusive.append('machinery error: %s\n%s' % (e, traceback.format_exc()[-2000:]))
    mod = sys.modules.get('obligations.' + prop)
    return ses.finish(**(getattr(mod, 'EVIDENCE', {}) if mod else {}))


def cmd_replay(args):
    rep = json.load(open(args.file))
    if rep.get('engine') == 'kani':
        from engine_k import runner as K
        return K.replay(rep)
    orc = S.Oracle(S.ensure_oracle('debug'))
    orc_tu = None
    ok = True
    for c in rep['calls']:
        if c.get('oracle', 'oracle') == 'oracle_tu':
            orc_tu = orc_tu or S.Oracle(S.ensure_oracle('debug', which='oracle_tu'))
            out = orc_tu.call([c['oracle_line']])[0]
        else:
            out = orc.call([c['oracle_line']])[0]
        same = out.strip() == c['native_output'].strip()
        print('%s -> %s   (recorded: %s) %s' % (c['oracle_line'], out, c['native_output'], 'REPRODUCED' if same else 'DIFFERENT'))
        ok = ok and same
    print('claim violated: ' + rep.get('claim', ''))
    return 1 if ok else 0


def main():
    ap = argparse.ArgumentParser()
    sub = ap.add_subparsers(dest='cmd')
    sub.add_parser('setup')
    c = sub.add_parser('check')
    c.add_argument('prop')
    c.add_argument('--tier', default=None)
    r = sub.add_parser('replay')
    r.add_argument('file')
    args = ap.parse_args()
    if args.cmd == 'setup':
        sys.exit(cmd_setup(args))
    if args.cmd == 'check':
        sys.exit(cmd_check(args))
    if args.cmd == 'replay':
        sys.exit(cmd_replay(args))
    ap.print_help()
    sys.exit(2)


if __name__ == '__main__':
    main()
